"""Self test of decoders/iso9660.py + spec/Volume.tla.

Part 1: build varied images with the real pycdlib (from /repo), decode them with the independent
        decoder, let TLC (Judge_Volume) evaluate the ECMA-119/Joliet clauses, print the failing
        clauses per image; cross-check the decoder against pycdlib's own view of the same bytes
        (same set of directory and file paths per tree, same SHA-256 per file).
Part 2: sensitivity: corrupt one field of an image and require that TLC names the expected clause
        (and nothing outside the allowed set).
Exit status: 0 unless a sensitivity expectation fails or TLC errors out (2).

Run: PYTHONHASHSEED=0 PYTHONPATH=/verif/harness:/repo /venv/bin/python harness/selftest_iso.py [--perf]
"""
import det; det.install()   # noqa: E702  (must precede pycdlib)

import hashlib
import io
import struct
import sys
import traceback

import pycdlib

import judge
import tlc
from decoders import iso9660


def blob(tag, size):
    """position dependent pseudo random bytes"""
    out = b''
    k = 0
    while len(out) < size:
        out += hashlib.sha256(('%s:%d' % (tag, k)).encode()).digest()
        k += 1
    return out[:size]


class B(object):
    """Thin builder: one call adds an entry to every namespace the image carries."""

    def __init__(self, level=1, joliet=None, rr=None, xa=False, udf=None):
        self.level, self.joliet, self.rr, self.xa, self.udf = level, joliet, rr, xa, udf
        self.iso = pycdlib.PyCdlib()
        self.iso.new(interchange_level=level, joliet=joliet, rock_ridge=rr, xa=xa, udf=udf)

    def _kw(self, iso_path, nice, jol=True):
        nice = nice or iso_path.split(';')[0].rstrip('.').lower()
        kw = {'iso_path': iso_path}
        if self.rr:
            kw['rr_name'] = nice.rsplit('/', 1)[1]
        if self.joliet and jol:
            kw['joliet_path'] = nice
        if self.udf:
            kw['udf_path'] = nice
        return kw

    def d(self, iso_path, nice=None, jol=True):
        self.iso.add_directory(**self._kw(iso_path, nice, jol))

    def f(self, iso_path, data, nice=None, jol=True):
        if isinstance(data, int):
            data = blob(iso_path, data)
        self.iso.add_fp(io.BytesIO(data), len(data), **self._kw(iso_path, nice, jol))

    def write(self):
        out = io.BytesIO()
        self.iso.write_fp(out)
        self.iso.close()
        return out.getvalue()


# ------------------------------------------------------------------ the corpus
def corpus():
    imgs = []

    def img(name, **kw):
        def deco(fn):
            imgs.append((name, kw, fn))
            return fn
        return deco

    def few(b):
        b.f('/FOO.TXT;1', 5)
        b.d('/DIR1')
        b.f('/DIR1/BAR.TXT;1', 3000)
        b.f('/ZED.;1', 1)

    img('l1-empty', level=1)(lambda b: None)
    img('l1-few', level=1)(few)
    img('l2-long', level=2)(lambda b: (few(b), b.f('/ABCDEFGHIJKLMNOPQRSTUVWXYZ.ABC;1', 10), b.d('/LONGDIRECTORYNAME0123456789')))
    img('l3-few', level=3)(few)

    @img('l4-free', level=4)
    def _(b):
        few(b)
        b.f('/lower case name with spaces.text', 77)
        b.d('/a.dir')
        b.f('/a.dir/x' * 1 + 'y' * 100, 9)
    img('l1-jol1', level=1, joliet=1)(few)
    img('l1-jol2', level=1, joliet=2)(few)

    @img('l1-jol3-unicode', level=1, joliet=3)
    def _(b):
        few(b)
        b.f('/UNI1.TXT;1', 10, '/äöü 中文.txt')
        b.d('/UNIDIR', '/Жук')
        b.f('/UNIDIR/A.;1', 20, '/Жук/あ')
        b.f('/UNIDIR/B.;1', 20, '/Жук/' + 'n' * 64)
    img('l1-rr109', level=1, rr='1.09')(few)
    img('l1-rr110', level=1, rr='1.10')(few)
    img('l1-rr112', level=1, rr='1.12')(few)
    img('l3-rr109-jol3', level=3, rr='1.09', joliet=3)(few)
    img('l1-xa', level=1, xa=True)(few)
    img('l1-xa-rr', level=1, xa=True, rr='1.09')(few)
    img('l3-udf', level=3, udf='2.60')(few)
    img('l1-udf', level=1, udf='2.60')(few)
    img('l3-udf-jol-rr', level=3, udf='2.60', joliet=3, rr='1.09')(few)

    @img('l1-depth8', level=1)
    def _(b):
        p = ''
        for k in range(7):          # root + 7 = 8 levels (ECMA-119 6.8.2.1)
            p += '/D%d' % k
            b.d(p)
            if k < 6:               # pycdlib refuses a file inside the level-8 directory
                b.f(p + '/F%d.TXT;1' % k, 10 + k)

    @img('rr-deep-relocated', level=1, rr='1.09')
    def _(b):
        p = ''
        for k in range(10):
            p += '/D%d' % k
            b.d(p)
        b.f(p + '/DEEP.TXT;1', 100)

    @img('l1-bigdir45', level=1)
    def _(b):
        for k in range(45):
            b.f('/FILE%04d.TXT;1' % k, k)

    @img('jol-bigdir120', level=1, joliet=3)
    def _(b):
        b.d('/BIG')
        for k in range(120):
            b.f('/BIG/F%07d.DAT;1' % k, (k * 37) % 5000, '/big/a rather long joliet name number %d.dat' % k)

    @img('l1-150dirs', level=1)
    def _(b):
        for k in range(150):
            b.d('/DIR%05d' % k)
        b.f('/DIR00077/X.;1', 10)

    @img('jol-150dirs-nested', level=3, joliet=3)
    def _(b):
        for a in range(5):
            b.d('/TOP%d' % a)
            for c in range(6):
                b.d('/TOP%d/MID%d%d' % (a, a, c), '/top%d/middle directory %d' % (a, c))
                for e in range(4):
                    b.d('/TOP%d/MID%d%d/LEAF%d' % (a, a, c, e), '/top%d/middle directory %d/leaf %d' % (a, c, e))
        b.f('/TOP3/MID34/LEAF2/DATA.BIN;1', 5000, '/top3/middle directory 4/leaf 2/data.bin')

    @img('l4-50dirs-flat', level=4)
    def _(b):
        for k in range(50):
            b.d('/directory number %d' % k)

    @img('jol-60dirs-flat', level=1, joliet=3)
    def _(b):
        for k in range(60):
            b.d('/DIR%05d' % k, '/a joliet directory with number %d' % k)

    @img('rr-150dirs', level=1, rr='1.09')
    def _(b):
        for k in range(130):
            b.d('/DIR%05d' % k, '/directory-%d' % k)

    @img('zero-length', level=1, joliet=3)
    def _(b):
        b.f('/A.;1', b'')
        b.f('/B.;1', b'')
        b.f('/C.;1', 10)
        b.d('/D')
        b.f('/D/E.;1', b'')

    @img('hardlink-iso', level=1)
    def _(b):
        b.f('/ORIG.TXT;1', 3000)
        b.d('/SUB')
        b.iso.add_hard_link(iso_old_path='/ORIG.TXT;1', iso_new_path='/SUB/LINK.TXT;1')
        b.iso.add_hard_link(iso_old_path='/ORIG.TXT;1', iso_new_path='/LINK2.TXT;1')

    @img('hardlink-joliet', level=1, joliet=3)
    def _(b):
        b.iso.add_fp(io.BytesIO(blob('x', 2500)), 2500, iso_path='/ONLYISO.TXT;1')
        b.iso.add_hard_link(iso_old_path='/ONLYISO.TXT;1', joliet_new_path='/linked in joliet.txt')
        b.f('/BOTH.TXT;1', 100)

    @img('hardlink-rr', level=1, rr='1.09')
    def _(b):
        b.f('/ORIG.TXT;1', 1234)
        b.iso.add_hard_link(iso_old_path='/ORIG.TXT;1', iso_new_path='/COPY.TXT;1', rr_name='copy.txt')

    @img('dup-pvd', level=1)
    def _(b):
        few(b)
        b.iso.duplicate_pvd()

    @img('dup-pvd-jol', level=3, joliet=3)
    def _(b):
        few(b)
        b.iso.duplicate_pvd()

    @img('eltorito', level=1)
    def _(b):
        b.f('/BOOT.BIN;1', 2048)
        b.iso.add_eltorito('/BOOT.BIN;1', bootcatfile='/BOOT.CAT;1')
        b.f('/OTHER.TXT;1', 50)

    @img('eltorito-jol-rr', level=1, joliet=3, rr='1.09')
    def _(b):
        b.f('/BOOT.BIN;1', 4096, '/boot.bin')
        b.iso.add_eltorito('/BOOT.BIN;1', bootcatfile='/BOOT.CAT;1', rr_bootcatname='boot.cat',
                           joliet_bootcatfile='/boot.cat')
        few(b)

    @img('eltorito-infotable', level=1)
    def _(b):
        b.f('/BOOT.BIN;1', 5000)
        b.iso.add_eltorito('/BOOT.BIN;1', bootcatfile='/BOOT.CAT;1', boot_info_table=True)

    @img('eltorito-udf', level=3, udf='2.60')
    def _(b):
        b.f('/BOOT.BIN;1', 2048)
        b.iso.add_eltorito('/BOOT.BIN;1', bootcatfile='/BOOT.CAT;1')

    @img('isohybrid', level=1)
    def _(b):
        data = bytearray(blob('isolinux', 4096))
        data[0x40:0x44] = b'\xfb\xc0\x78\x70'
        b.f('/ISOLINUX.BIN;1', bytes(data))
        b.iso.add_eltorito('/ISOLINUX.BIN;1', bootcatfile='/BOOT.CAT;1', boot_load_size=4, boot_info_table=True)
        b.iso.add_isohybrid()

    @img('sizes', level=1, joliet=3)
    def _(b):
        for k, n in enumerate((1, 2047, 2048, 2049, 4095, 4096, 4097)):
            b.f('/S%d.BIN;1' % k, n)

    @img('after-rm', level=1, joliet=3)
    def _(b):
        few(b)
        b.d('/GONE')
        b.f('/GONE/X.;1', 10)
        b.iso.rm_file(iso_path='/GONE/X.;1', joliet_path='/gone/x')
        b.iso.rm_directory(iso_path='/GONE', joliet_path='/gone')
        b.iso.rm_file(iso_path='/FOO.TXT;1', joliet_path='/foo.txt')

    @img('shrink-bigdir', level=1)
    def _(b):
        for k in range(100):
            b.f('/FILE%04d.TXT;1' % k, 10)
        for k in range(5, 100):
            b.iso.rm_file(iso_path='/FILE%04d.TXT;1' % k)

    @img('shrink-dirs', level=1, rr='1.09')
    def _(b):
        for k in range(140):
            b.d('/DIR%05d' % k)
        for k in range(3, 140):
            b.iso.rm_directory(iso_path='/DIR%05d' % k, rr_name='dir%05d' % k)

    @img('sort-ext-vs-version', level=3)     # DESIGN S9
    def _(b):
        for n in ('/A.B;1', '/A.B1;1', '/A;1', '/A1;1', '/AB.C;1', '/A.C;1'):
            b.iso.add_fp(io.BytesIO(n.encode()), len(n), iso_path=n)

    @img('sort-noext', level=1)
    def _(b):
        for n in ('/FOO;1', '/FOO1;1', '/FOO_;1'):
            b.iso.add_fp(io.BytesIO(n.encode()), len(n), iso_path=n)

    @img('sort-versions', level=1)
    def _(b):
        for n in ('/FOO.TXT;1', '/FOO.TXT;2', '/FOO.TXT;10'):
            b.iso.add_fp(io.BytesIO(n.encode()), len(n), iso_path=n)

    @img('sort-dirs-l4', level=4)
    def _(b):
        for n in ('/AB', '/AB-C', '/AB C', '/AB.D'):
            b.iso.add_directory(iso_path=n)
            b.iso.add_directory(iso_path=n + '/SUB')

    @img('sort-joliet', level=1, joliet=3)
    def _(b):
        b.f('/A.;1', 1, '/b')
        b.f('/B.;1', 1, '/B')
        b.f('/C.;1', 1, '/a.b')
        b.f('/D.;1', 1, '/a')
        b.f('/E.;1', 1, '/a b')
        b.f('/F.;1', 1, '/é')

    @img('l4-jol', level=4, joliet=3)
    def _(b):
        few(b)
        b.f('/mixed Case.file', 100, '/mixed Case.file')

    @img('rr-symlinks', level=1, rr='1.09')
    def _(b):
        few(b)
        b.iso.add_symlink('/SYM.;1', 'sym', 'foo.txt')
        b.iso.add_symlink('/DIR1/SYM2.;1', 'sym2', '../zed')

    @img('rr-long-names-ce', level=1, rr='1.09')
    def _(b):
        for k in range(6):
            b.f('/LONG%d.TXT;1' % k, 10, '/' + ('long-rock-ridge-name-%d-' % k) * 9)

    @img('rr-bigdir60', level=1, rr='1.09', joliet=3)
    def _(b):
        b.d('/MANY')
        for k in range(60):
            b.f('/MANY/F%03d.TXT;1' % k, k * 3, '/many/file number %d.txt' % k)

    @img('divergent-trees', level=3, joliet=3)
    def _(b):
        b.d('/ISOONLY', jol=False)
        b.f('/ISOONLY/A.TXT;1', 10, jol=False)
        b.iso.add_directory(joliet_path='/joliet only')
        b.iso.add_fp(io.BytesIO(b'jjj'), 3, joliet_path='/joliet only/j.txt')
        b.f('/BOTH.TXT;1', 99)

    @img('pt-renumber', level=1, joliet=3)
    def _(b):       # later additions sort before earlier ones: path table numbers shift
        for p in ('/Z', '/Z/SUB', '/Z/SUB/DEEP', '/M', '/M/Q', '/A', '/A/SUB', '/A/SUB/DEEPER', '/A/B'):
            b.d(p)
        b.f('/Z/SUB/DEEP/F.;1', 10)
        b.iso.rm_directory(iso_path='/M/Q', joliet_path='/m/q')
        b.d('/AA')
        b.d('/AA/ZZ')

    @img('l1-340dirs-2levels', level=1)
    def _(b):
        for a in range(20):
            b.d('/T%02d' % (19 - a))
        for a in range(20):
            for c in range(16):
                b.d('/T%02d/C%02d%02d' % (a, a, 15 - c))

    @img('xa-bigdir', level=1, xa=True)
    def _(b):
        b.d('/SUBDIR')
        for k in range(50):
            b.f('/SUBDIR/FILE%04d.TXT;1' % k, k)

    @img('hidden-and-rm-link', level=1, joliet=3)
    def _(b):
        b.f('/HIDDEN.TXT;1', 10)
        b.f('/SHOWN.TXT;1', 10)
        b.iso.set_hidden(iso_path='/HIDDEN.TXT;1')
        b.iso.add_hard_link(iso_old_path='/SHOWN.TXT;1', iso_new_path='/ALIAS.TXT;1')
        b.iso.rm_hard_link(iso_path='/SHOWN.TXT;1')

    @img('same-name-added-twice', level=1)      # DESIGN S22: merged into a "multi-extent" file
    def _(b):
        b.iso.add_fp(io.BytesIO(b'first'), 5, iso_path='/FOO.TXT;1')
        b.iso.add_fp(io.BytesIO(b'second!'), 7, iso_path='/FOO.TXT;1')

    @img('dirs-and-files-mixed-names', level=1)
    def _(b):
        for n in ('AAA', 'AAB', 'B', 'ZZZZZZZZ'):
            b.d('/' + n)
            b.d('/' + n + '/X')
            b.d('/' + n + '/Y1')
        for n in ('AA.TXT;1', 'AAAA.TXT;1', 'C.;1'):
            b.f('/' + n, 8)
    return imgs


def build_reopened():
    """second generation: write, reopen, edit, write again"""
    b = B(level=1, joliet=3)
    b.f('/FIRST.TXT;1', 100)
    b.d('/D1')
    first = b.write()
    iso = pycdlib.PyCdlib()
    iso.open_fp(io.BytesIO(first))
    iso.add_fp(io.BytesIO(b'second'), 6, iso_path='/D1/SECOND.TXT;1', joliet_path='/d1/second.txt')
    iso.add_directory(iso_path='/D2', joliet_path='/d2')
    iso.rm_file(iso_path='/FIRST.TXT;1', joliet_path='/first.txt')
    out = io.BytesIO()
    iso.write_fp(out)
    iso.close()
    return out.getvalue()


# ----------------------------------------------------- pycdlib's view of the bytes
def _decoder_view(rep, ns):
    def s(name):
        if ns == 'jol':
            return b''.join(struct.pack('>H', u) for u in name).decode('utf-16_be', 'replace')
        return bytes(name).decode('latin-1')
    dirs = set('/' + '/'.join(s(n) for n in d['path']) for d in rep['trees'][ns])
    files = {}
    for f in rep['files'][ns]:
        files['/' + '/'.join(s(n) for n in f['path'])] = f['sha']
    return dirs, files


def crosscheck(data, rep):
    """compare with what pycdlib itself reads from the same bytes; returns a list of differences"""
    diffs = []
    iso = pycdlib.PyCdlib()
    try:
        iso.open_fp(io.BytesIO(data))
    except Exception as e:
        return ['pycdlib cannot reopen its own image: %s: %s' % (type(e).__name__, e)]
    try:
        for ns, key in (('iso', 'iso_path'), ('jol', 'joliet_path'), ('enh', 'iso_path')):
            if ns not in rep['trees']:
                if ns == 'jol' and iso.has_joliet():
                    diffs.append('pycdlib sees Joliet, decoder does not')
                continue
            ddirs, dfiles = _decoder_view(rep, ns)
            pdirs, pfiles = set(), {}
            for dirname, dirlist, filelist in iso.walk(**{key: '/'}):
                pdirs.add(dirname)
                for fn in filelist:
                    p = dirname.rstrip('/') + '/' + fn
                    out = io.BytesIO()
                    try:
                        iso.get_file_from_iso_fp(out, **{key: p})
                        pfiles[p] = hashlib.sha256(out.getvalue()).hexdigest()
                    except pycdlib.pycdlibexception.PyCdlibException as e:
                        pfiles[p] = 'unreadable: %s' % e
            if ddirs != pdirs:
                diffs.append('%s: directories differ: only decoder %s, only pycdlib %s'
                             % (ns, sorted(ddirs - pdirs)[:5], sorted(pdirs - ddirs)[:5]))
            if set(dfiles) != set(pfiles):
                diffs.append('%s: files differ: only decoder %s, only pycdlib %s'
                             % (ns, sorted(set(dfiles) - set(pfiles))[:5], sorted(set(pfiles) - set(dfiles))[:5]))
            for p in sorted(set(dfiles) & set(pfiles)):
                if pfiles[p].startswith('unreadable'):
                    # Rock Ridge symlinks carry no data; the placeholder of a relocated directory
                    # (RRIP "CL") is a file record that pycdlib refuses to read as a file
                    if dfiles[p] != hashlib.sha256(b'').hexdigest() and 'directory' not in pfiles[p]:
                        diffs.append('%s: %s: pycdlib %s, decoder has data' % (ns, p, pfiles[p]))
                elif dfiles[p] != pfiles[p]:
                    diffs.append('%s: %s: SHA-256 differs' % (ns, p))
    finally:
        iso.close()
    return diffs


# ------------------------------------------------------------------ sensitivity
def put32(data, pos, val):
    data[pos:pos + 8] = struct.pack('<L', val) + struct.pack('>L', val)


def put16(data, pos, val):
    data[pos:pos + 4] = struct.pack('<H', val) + struct.pack('>H', val)


def rpos(rec):
    return rec['sector'] * 2048 + rec['off']


def find_dir(rep, ns, path):
    want = [list(p.encode('ascii')) if ns != 'jol' else [ord(c) for c in p] for p in path]
    for d in rep['trees'][ns]:
        if d['path'] == want:
            return d
    raise KeyError(path)


def find_rec(rep, ns, path, name):
    want = list(name.encode('ascii')) if ns != 'jol' else [ord(c) for c in name]
    for rec in find_dir(rep, ns, path)['records']:
        if rec['name'] == want:
            return rec
    raise KeyError(name)


def pt_rec(rep, ns, which, name):
    want = list(name.encode('ascii')) if ns != 'jol' else [ord(c) for c in name]
    t = rep['ptables'][ns][which]
    for rec in t['recs']:
        if rec['name'] == want:
            return t['loc'] * 2048 + rec['off'], rec
    raise KeyError(name)


def vd_pos(rep, ns):
    return rep['vds'][rep['treevd'][ns] - 1]['sector'] * 2048


def sens_base():
    b = B(level=1, joliet=3)
    for n in ('AAA', 'BBB', 'CCC', 'DDD'):
        b.d('/' + n)
    b.d('/AAA/SUB')
    b.f('/F1.TXT;1', 100)
    b.f('/F2.TXT;1', 200)
    b.f('/F3.TXT;1', 3000)
    b.f('/AAA/SUB/DEEP.TXT;1', 10)
    return b.write()


def sens_big():
    b = B(level=1)
    for k in range(60):
        b.f('/FILE%04d.TXT;1' % k, 10)
    return b.write()


def sens_dup():
    b = B(level=1)
    b.f('/F1.TXT;1', 100)
    b.iso.duplicate_pvd()
    return b.write()


def sensitivity_cases():
    """(name, base, mutate(data: bytearray, rep), must: set, allowed: set, or None = anything)"""
    C = []
    ANY = 'any'

    def case(name, base, must, allowed=()):
        def deco(fn):
            C.append((name, base, fn, set(must), None if allowed == ANY else set(must) | set(allowed)))
            return fn
        return deco

    @case('BE copy of a file extent +1', 'base', ['iso:BothEndianAgree'])
    def _(d, r):
        rec = find_rec(r, 'iso', [], 'F1.TXT;1')
        d[rpos(rec) + 6:rpos(rec) + 10] = struct.pack('>L', rec['extent'][1] + 1)

    @case('BE copy of a file size gets the top bit', 'base', ['iso:BothEndianAgree'])
    def _(d, r):
        rec = find_rec(r, 'iso', [], 'F1.TXT;1')
        d[rpos(rec) + 14] |= 0x80

    @case('BE copy of a file extent gets the top bit', 'base', ['iso:BothEndianAgree', 'FieldOver31Bits'])
    def _(d, r):
        rec = find_rec(r, 'iso', [], 'F1.TXT;1')
        d[rpos(rec) + 6] |= 0x80

    @case('LE copy of volume set size in PVD', 'base', ['vd:BothEndianAgree'])
    def _(d, r):
        d[vd_pos(r, 'iso') + 120] = 2

    @case('BE copy of sequence number in a Joliet record', 'base', ['jol:BothEndianAgree'])
    def _(d, r):
        rec = find_rec(r, 'jol', [], 'f2.txt')
        d[rpos(rec) + 31] = 7

    @case('path table parent of SUB -> BBB (L and M)', 'base', ['iso:PathTableParents'],
          ['iso:PathTableParents', 'iso:PathTableListsExactlyTheDirs', 'iso:PathTableOrder'])
    def _(d, r):
        pos, rec = pt_rec(r, 'iso', 'L', 'SUB')
        d[pos + 6:pos + 8] = struct.pack('<H', 3)
        pos, rec = pt_rec(r, 'iso', 'M', 'SUB')
        d[pos + 6:pos + 8] = struct.pack('>H', 3)

    @case('path table parent of SUB -> BBB (L only)', 'base', ['iso:PathTableParents', 'iso:BothEndianAgree'],
          ['iso:PathTableParents', 'iso:PathTableListsExactlyTheDirs', 'iso:PathTableOrder', 'iso:BothEndianAgree'])
    def _(d, r):
        pos, rec = pt_rec(r, 'iso', 'L', 'SUB')
        d[pos + 6:pos + 8] = struct.pack('<H', 3)

    @case('path table parent of SUB -> itself (L and M)', 'base', ['iso:PathTableOrder', 'iso:PathTableParents'],
          ['iso:PathTableParents', 'iso:PathTableListsExactlyTheDirs', 'iso:PathTableOrder'])
    def _(d, r):
        pos, rec = pt_rec(r, 'iso', 'L', 'SUB')
        d[pos + 6:pos + 8] = struct.pack('<H', rec['num'])
        pos, rec = pt_rec(r, 'iso', 'M', 'SUB')
        d[pos + 6:pos + 8] = struct.pack('>H', rec['num'])

    @case('Joliet type M path table: extent of one record', 'base', ['jol:BothEndianAgree'],
          ['jol:BothEndianAgree', 'jol:PathTableParents', 'jol:PathTableListsExactlyTheDirs'])
    def _(d, r):
        pos, rec = pt_rec(r, 'jol', 'M', 'ccc')
        d[pos + 2:pos + 6] = struct.pack('>L', rec['extent'] + 1)

    @case('swap CCC and DDD in both path tables', 'base', ['iso:PathTableOrder'])
    def _(d, r):
        for w in 'LM':
            p1, r1 = pt_rec(r, 'iso', w, 'CCC')
            p2, r2 = pt_rec(r, 'iso', w, 'DDD')
            n = 8 + 3 + 1
            d[p1:p1 + n], d[p2:p2 + n] = bytes(d[p2:p2 + n]), bytes(d[p1:p1 + n])

    @case('path table size field +2', 'base', ['iso:PathTableSizeField'])
    def _(d, r):
        put32(d, vd_pos(r, 'iso') + 132, r['vds'][0]['ptsize'][0] + 2)

    @case('path table size field -12 (drops DDD... no: SUB)', 'base',
          ['iso:PathTableListsExactlyTheDirs'], ['iso:PathTableListsExactlyTheDirs', 'iso:PathTableSizeField'])
    def _(d, r):
        put32(d, vd_pos(r, 'iso') + 132, r['vds'][0]['ptsize'][0] - 12)

    @case('swap two adjacent file records in the root', 'base', ['iso:DirSorted'])
    def _(d, r):
        a, b2 = find_rec(r, 'iso', [], 'F1.TXT;1'), find_rec(r, 'iso', [], 'F2.TXT;1')
        n = a['reclen']
        assert n == b2['reclen'] and rpos(b2) == rpos(a) + n
        d[rpos(a):rpos(a) + n], d[rpos(b2):rpos(b2) + n] = bytes(d[rpos(b2):rpos(b2) + n]), bytes(d[rpos(a):rpos(a) + n])

    @case('swap two adjacent file records in the Joliet root', 'base', ['jol:DirSorted'])
    def _(d, r):
        a, b2 = find_rec(r, 'jol', [], 'f1.txt'), find_rec(r, 'jol', [], 'f2.txt')
        n = a['reclen']
        assert n == b2['reclen'] and rpos(b2) == rpos(a) + n
        d[rpos(a):rpos(a) + n], d[rpos(b2):rpos(b2) + n] = bytes(d[rpos(b2):rpos(b2) + n]), bytes(d[rpos(a):rpos(a) + n])

    @case('rename F1.TXT;1 to F1.TXT;3 (version order)', 'base', [])
    def _(d, r):     # a higher version alone is fine: F1.TXT;3 < F2.TXT;1 by name
        rec = find_rec(r, 'iso', [], 'F1.TXT;1')
        d[rpos(rec) + 33 + 7] = ord('3')

    @case('rename F2.TXT;1 to F1.TXT;2 (version must descend)', 'base', ['iso:DirSorted'])
    def _(d, r):
        rec = find_rec(r, 'iso', [], 'F2.TXT;1')
        d[rpos(rec) + 33:rpos(rec) + 41] = b'F1.TXT;2'

    @case('".." size in /AAA', 'base', ['iso:DotDotIsParent'])
    def _(d, r):
        rec = find_dir(r, 'iso', ['AAA'])['records'][1]
        put32(d, rpos(rec) + 10, 4096)

    @case('".." extent in /AAA/SUB', 'base', ['iso:DotDotIsParent'])
    def _(d, r):
        rec = find_dir(r, 'iso', ['AAA', 'SUB'])['records'][1]
        put32(d, rpos(rec) + 2, rec['extent'][0] - 1)

    @case('"." extent in /AAA', 'base', ['iso:DotIsSelf'])
    def _(d, r):
        rec = find_dir(r, 'iso', ['AAA'])['records'][0]
        put32(d, rpos(rec) + 2, rec['extent'][0] + 1)

    @case('"." size in Joliet /aaa', 'base', ['jol:DotIsSelf'])
    def _(d, r):
        rec = find_dir(r, 'jol', ['aaa'])['records'][0]
        put32(d, rpos(rec) + 10, 4096)

    @case('terminator type zeroed', 'base', ['VDSetTerminated'], ANY)
    def _(d, r):
        d[r['vds'][r['term_index'] - 1]['sector'] * 2048] = 0

    @case('standard identifier of the SVD', 'base', ['VDSetTerminated'])
    def _(d, r):
        d[vd_pos(r, 'jol') + 1] = ord('X')

    @case('padding byte of a record', 'base', ['iso:RecordLengthsConsistent'])
    def _(d, r):
        rec = find_rec(r, 'iso', [], 'F1.TXT;1')
        d[rpos(rec) + 33 + 8] = 0x41

    @case('odd record length', 'base', ['iso:RecordLengthsConsistent'], ['iso:RecordLengthsConsistent', 'iso:UnusedDirBytesZero', 'iso:DirSorted', 'iso:BothEndianAgree', 'DecoderErrors', 'FieldOver31Bits', 'iso:RecordsInsideSectors'])
    def _(d, r):
        rec = find_dir(r, 'iso', ['AAA', 'SUB'])['records'][-1]
        d[rpos(rec)] += 1

    @case('non-zero byte in the unused tail of a directory sector', 'base', ['iso:UnusedDirBytesZero'])
    def _(d, r):
        d[find_dir(r, 'iso', [])['extent'] * 2048 + 2047] = 1

    @case('volume space size +5', 'base', ['SpaceSizeCoversImage'])
    def _(d, r):
        put32(d, vd_pos(r, 'iso') + 80, r['nsect'] + 5)

    @case('image truncated by 100 bytes', 'base', ['SpaceSizeCoversImage'], ['SpaceSizeCoversImage', 'DecoderErrors'])
    def _(d, r):
        del d[-100:]

    @case('volume sequence number of the root record in the PVD', 'base', ['iso:RootRecordInVDMatchesDot'])
    def _(d, r):
        put16(d, vd_pos(r, 'iso') + 156 + 28, 2)

    @case('extent of the root record in the SVD -> ISO root', 'base', ['jol:PathTableListsExactlyTheDirs'], ANY)
    def _(d, r):
        put32(d, vd_pos(r, 'jol') + 156 + 2, r['trees']['iso'][0]['extent'])

    @case('extent of the root record in the SVD: LE copy only +1', 'base', ['vd:BothEndianAgree'], ANY)
    def _(d, r):
        p = vd_pos(r, 'jol') + 156 + 2
        d[p:p + 4] = struct.pack('<L', r['trees']['jol'][0]['extent'] + 1)

    @case('image of 40 zero sectors', 'base', ['VDSetTerminated', 'DecoderErrors'], ANY)
    def _(d, r):
        d[:] = bytes(40 * 2048)

    @case('image of 5 sectors', 'base', ['DecoderErrors', 'VDSetTerminated'], ANY)
    def _(d, r):
        del d[5 * 2048:]

    @case('image of 0xff bytes', 'base', ['VDSetTerminated'], ANY)
    def _(d, r):
        d[:] = b'\xff' * (20 * 2048)

    @case('PVD root record points at itself as a directory of 2^31 bytes', 'base', ['FieldOver31Bits'], ANY)
    def _(d, r):
        put32(d, vd_pos(r, 'iso') + 156 + 10, 0x80000000)

    @case('child directory points back at the root (cycle)', 'base', ['DecoderErrors'], ANY)
    def _(d, r):
        put32(d, rpos(find_rec(r, 'iso', ['AAA'], 'SUB')) + 2, r['trees']['iso'][0]['extent'])

    @case('Joliet escape sequence %/E -> %/A', 'base', ['JolietEscapeIsLevel'])
    def _(d, r):
        d[vd_pos(r, 'jol') + 90] = ord('A')

    @case('Joliet escape sequence %/E -> %/C (level 2 where 3 was asked)', 'base', ['JolietEscapeIsLevel'])
    def _(d, r):
        d[vd_pos(r, 'jol') + 90] = ord('C')

    @case('logical block size 1024', 'base', ['BlockSizeIs2048'])
    def _(d, r):
        put16(d, vd_pos(r, 'iso') + 128, 1024)

    @case('size of /AAA in the root = 1000', 'base', ['iso:DirSizeMatches', 'iso:DotIsSelf'], ['iso:DirSizeMatches', 'iso:DotIsSelf', 'iso:DotDotIsParent'])
    def _(d, r):
        put32(d, rpos(find_rec(r, 'iso', [], 'AAA')) + 10, 1000)

    @case('directory flag of /BBB cleared', 'base', ['iso:PathTableListsExactlyTheDirs'], ['iso:PathTableListsExactlyTheDirs', 'iso:PathTableParents', 'DecoderErrors'])
    def _(d, r):
        d[rpos(find_rec(r, 'iso', [], 'BBB')) + 25] = 0

    @case('record made to cross a sector boundary', 'big', ['iso:RecordsInsideSectors'], ANY)
    def _(d, r):
        recs = find_dir(r, 'iso', [])['records']
        first = recs[0]['sector']
        last = [x for x in recs if x['sector'] == first][-1]
        d[rpos(last)] = 2048 - last['off'] + 2

    @case('root length 6144 where two sectors are used', 'big', ['iso:DirLengthTight'])
    def _(d, r):
        # consistent everywhere (VD root record, ".", ".."), but one unused sector too many;
        # the sector after the directory must be zero for the decoder not to see records there
        root = find_dir(r, 'iso', [])
        nxt = (root['extent'] + root['len'] // 2048) * 2048
        d[nxt:nxt + 2048] = bytes(2048)
        for pos in (vd_pos(r, 'iso') + 156, rpos(root['records'][0]), rpos(root['records'][1])):
            put32(d, pos + 10, root['len'] + 2048)

    @case('second PVD: L path table location', 'dup', ['PvdCopiesAgree'])
    def _(d, r):
        d[17 * 2048 + 140:17 * 2048 + 144] = struct.pack('<L', r['vds'][1]['ptL'] + 1)
    return C


# ------------------------------------------------------------------------- main
def perf():
    items = []
    for n in range(200):
        b = B(level=1, joliet=3)
        b.d('/DIR1')
        b.d('/DIR1/SUB')
        for k in range(3 + n % 4):
            b.f('/DIR1/FOO%d.TXT;1' % k, 6 + n)
        b.f('/EMPTY.;1', b'')
        rep = iso9660.decode(b.write())
        rep['id'] = 'p%d' % n
        rep['expect'] = {'joliet': 3}
        items.append(rep)
    nrec = max(sum(len(d['records']) for t in it['trees'].values() for d in t) for it in items)
    t0 = det.real_time()
    fails, stats = judge.judge('Judge_Volume', items)
    print('PERF: 200 images (<= %d directory records each) judged in one TLC run: %.1f s wall, failing: %d'
          % (nrec, det.real_time() - t0, len(fails)))


def main(argv):
    rc = 0
    t_start = det.real_time()
    items, datas, meta = [], {}, {}
    build_errors = []
    specs = corpus()
    for name, kw, fn in specs:
        try:
            b = B(**kw)
            fn(b)
            data = b.write()
        except Exception as e:
            build_errors.append((name, '%s: %s' % (type(e).__name__, e)))
            traceback.print_exc()
            continue
        datas[name] = data
        meta[name] = kw
    try:
        datas['reopened-edited'] = build_reopened()
        meta['reopened-edited'] = {'joliet': 3, 'level': 1}
    except Exception as e:
        build_errors.append(('reopened-edited', '%s: %s' % (type(e).__name__, e)))
    t_build = det.real_time()
    reports = {}
    for name, data in datas.items():
        rep = iso9660.decode(data)
        reports[name] = rep
        it = dict(rep)
        it['id'] = name
        it['expect'] = {'joliet': meta[name].get('joliet') or 0, 'level': meta[name].get('level', 1)}
        items.append(it)
    t_dec = det.real_time()

    # ---- sensitivity items ride in the same TLC run
    bases = {'base': sens_base(), 'big': sens_big(), 'dup': sens_dup()}
    base_reps = {k: iso9660.decode(v) for k, v in bases.items()}
    for k, rep in base_reps.items():
        it = dict(rep)
        it['id'] = 'sens-base:' + k
        it['expect'] = {'joliet': 3 if k == 'base' else 0}
        items.append(it)
    cases = sensitivity_cases()
    for n, (name, base, fn, must, allowed) in enumerate(cases):
        d = bytearray(bases[base])
        fn(d, base_reps[base])
        it = dict(iso9660.decode(bytes(d)))
        it['id'] = 'sens:%d' % n
        it['expect'] = {'joliet': 3 if base == 'base' else 0}
        items.append(it)

    try:
        fails, stats = judge.judge('Judge_Volume', items)
    except tlc.TlcError as e:
        print('TLC ERROR:\n%s' % e)
        return 2
    t_judge = det.real_time()

    print('== Part 1: %d pycdlib images, decoded and judged by TLC (Judge_Volume) ==' % len(datas))
    hist = {}
    ncross = 0
    nexplained = 0
    for name in datas:
        rep = reports[name]
        fl = fails.get(name, [])
        for c in fl:
            hist.setdefault(c, []).append(name)
        diffs = crosscheck(datas[name], rep)
        # a difference in a tree on which TLC already reports a failing clause is a consequence of
        # that defect (e.g. a truncated root directory), not a disagreement between the two readers
        explained = [df for df in diffs if any(c.startswith(df.split(':')[0] + ':') for c in fl)]
        ncross += len(diffs) > len(explained)
        nexplained += bool(explained)
        nrec = sum(len(d['records']) for t in rep['trees'].values() for d in t)
        print('%-28s %5d sectors, trees %s, %4d dirs, %5d records, ptsize %s : %s'
              % (name, rep['nsect'], '+'.join(sorted(rep['trees'])),
                 sum(len(t) for t in rep['trees'].values()), nrec,
                 [rep['vds'][rep['treevd'][t] - 1]['ptsize'][0] for t in sorted(rep['trees'])],
                 'all clauses hold' if not fl else 'FAILING ' + ', '.join(fl)))
        for e in rep['errors']:
            print('      decoder error: ' + e)
        for df in diffs:
            print('      CROSSCHECK %s (decoder vs pycdlib): %s'
                  % ('difference explained by the failing clause' if df in explained else 'MISMATCH', df))
    for name, e in build_errors:
        print('%-28s could not be built: %s' % (name, e))

    print('\n== Part 2: sensitivity (one field corrupted; TLC must name the clause) ==')
    bad = 0
    for k in bases:
        fl = fails.get('sens-base:' + k, [])
        # the unmodified bases must be clean, otherwise the expectations below mean nothing
        ok = not fl
        bad += not ok
        print('%-4s base image %-6s unmodified: %s' % ('ok' if ok else 'BAD', k, fl or 'all clauses hold'))
    for n, (name, base, fn, must, allowed) in enumerate(cases):
        fl = set(fails.get('sens:%d' % n, []))
        ok = must <= fl and (allowed is None or fl <= allowed)
        bad += not ok
        print('%-4s %-62s -> %s%s' % ('ok' if ok else 'BAD', name, sorted(fl) or '{}',
                                     '' if ok else '   expected %s within %s' % (sorted(must), 'anything' if allowed is None else sorted(allowed))))
    print('\n== Summary ==')
    print('images built: %d (build failures: %d); images with failing clauses: %d; crosscheck mismatches: %d '
          '(+%d explained by a failing clause of the same tree)'
          % (len(datas), len(build_errors), len([n for n in datas if n in fails]), ncross, nexplained))
    for c in sorted(hist):
        print('  %-36s fails on %d image(s): %s' % (c, len(hist[c]), ', '.join(hist[c][:8]) + (' ...' if len(hist[c]) > 8 else '')))
    print('sensitivity: %d cases, %d not as expected' % (len(cases) + len(bases), bad))
    print('timing: build %.1f s, decode %.1f s, TLC judge of %d reports %.1f s (TLC wall %.1f s), total %.1f s'
          % (t_build - t_start, t_dec - t_build, len(items), t_judge - t_dec, stats.get('wall_s', 0),
             det.real_time() - t_start))
    if '--perf' in argv:
        perf()
    if bad:
        rc = 1
    return rc


if __name__ == '__main__':
    sys.exit(main(sys.argv[1:]))
