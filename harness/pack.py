"""Boundary witnesses from the reference allocator (spec/DirPack.tla): directories and path tables
that end exactly on / just across a sector (or 4096-byte path table unit) boundary."""
import json

import tlc
from realize import Table

CFG = '''SPECIFICATION Spec
CONSTANTS
 Mode = "%(Mode)s"
 Unit = %(Unit)d
 Head0 = %(Head)d
 Lens = {%(Lens)s}
 MaxRecs = %(MaxRecs)d
 MaxUnits = %(MaxUnits)d
INVARIANT NoStraddle
PROPERTY Monotone
CONSTRAINT Bound
CONSTRAINT Witness
CHECK_DEADLOCK FALSE
'''


def witnesses(mode, lens, maxrecs, maxunits, head, unit, workers=8):
    p = dict(Mode=mode, Unit=unit, Head=head, Lens=', '.join(str(x) for x in lens), MaxRecs=maxrecs,
             MaxUnits=maxunits)
    out, stats = tlc.run_tlc('DirPack', CFG % p, workers=workers, timeout=600)
    tlc.need_ok(out, stats, 'DirPack')
    wits = [v for (tag, v) in tlc.tagged_lines(out) if tag == 'WIT']
    return wits, stats


def iso_name(group, idx, len_fi):
    """a level-4 / level-3 file identifier of exactly len_fi bytes, sorting by (group, idx)"""
    core = '%s%04d' % (group, idx)          # 5 chars
    tail = '.;1'
    fill = len_fi - len(core) - len(tail)
    if fill < 0:
        raise ValueError('identifier too short')
    return core + 'X' * fill + tail


def dir_name(group, idx, length):
    core = '%s%04d' % (group, idx)
    return core + 'D' * (length - len(core))


def dir_case(w, cfg):
    """witness -> (names table dict, history).  Plain ISO9660 records: reclen = 33 + len_fi (+1 if even)."""
    names = {}
    hist = [{'a': 'New', 'cfg': cfg, 'mode': 'lazy'}]
    order = []
    for (grp, L, n) in (('A', w['l1'], w['n1']), ('B', w['l2'], w['n2'])):
        len_fi = L - 33                      # L even => len_fi odd, no padding byte
        for i in range(n):
            nid = '%s%d' % (grp.lower(), i)
            ident = iso_name(grp, i, len_fi)
            names[nid] = {'iso': ident, 'rr': ident.lower()[:8] + nid, 'jol': nid, 'udf': nid}
            order.append(nid)
    for nid in order:
        hist.append({'a': 'AddFp', 'blob': 's', 'iso': [nid], 'jol': ['-'], 'udf': ['-']})
    return names, hist, order


PLAIN = {'level': 4, 'joliet': 0, 'rr': '', 'udf': False, 'xa': False}
CFGS_DIR = [
    ({'level': 4, 'joliet': 0, 'rr': '', 'udf': False, 'xa': False}, 0),
    ({'level': 3, 'joliet': 0, 'rr': '', 'udf': False, 'xa': False}, 0),
    ({'level': 4, 'joliet': 0, 'rr': '', 'udf': False, 'xa': True}, 14),
    ({'level': 3, 'joliet': 0, 'rr': '', 'udf': True, 'xa': False}, 0),
]


def nid_file(grp, L, i):
    return '%s%d_%d' % (grp, L, i)


def build_cases(seed, quick=True):
    """-> (names table dict, list of (id, history, peek_last)) from DirPack witnesses"""
    import random
    rng = random.Random('pack/%s' % seed)
    names = {}
    cases = []
    stats = []

    def fname(grp, L, i, extra):
        nid = nid_file(grp, L - extra, i)
        if nid not in names:
            len_fi = L - extra - 33
            ident = iso_name(grp, i, len_fi)
            names[nid] = {'iso': ident, 'rr': nid, 'jol': nid, 'udf': nid}
        return nid

    # ---- directories --------------------------------------------------------------------
    wits, st = witnesses('dir', [48 + 2 * k for k in range(0, 10)], 48, 2, 68, 2048)
    stats.append(st)
    by = {}
    for w in wits:
        by.setdefault((w['kind'], w['unit'], w['n2'] > 0), []).append(w)
    chosen = []
    for key in sorted(by):
        ws = sorted(by[key], key=lambda w: json.dumps(w, sort_keys=True))
        chosen += rng.sample(ws, min(len(ws), 3 if quick else 12))
    k = 0
    for w in chosen:
        for (cfg, extra) in (CFGS_DIR if not quick else CFGS_DIR[:3]):
            order = [fname('A', w['l1'] + extra if False else w['l1'], i, 0) for i in range(w['n1'])] + \
                    [fname('B', w['l2'], i, 0) for i in range(w['n2'])]
            if extra:
                # XA adds 14 bytes to every record: shorten the identifiers by 14 to keep the lengths
                if w['l1'] - 14 - 33 < 9 or w['l2'] - 14 - 33 < 9:
                    continue
                order = [fname('A', w['l1'], i, 14) for i in range(w['n1'])] + \
                        [fname('B', w['l2'], i, 14) for i in range(w['n2'])]
            if cfg['level'] == 3 and False:
                continue
            base = [{'a': 'New', 'cfg': cfg, 'mode': 'lazy'}]
            adds = [{'a': 'AddFp', 'blob': 's', 'iso': [n], 'jol': ['-'], 'udf': ['-']} for n in order]
            last = order[-1]
            extra_name = fname('C', 60, 0, 14 if extra else 0)
            variants = [
                adds,
                adds + [{'a': 'RmFile', 'ns': 'iso', 'p': [last]}],
                adds + [{'a': 'AddFp', 'blob': 's', 'iso': [extra_name], 'jol': ['-'], 'udf': ['-']}],
                adds + [{'a': 'Reopen', 'same': False},
                        {'a': 'ModifyInPlace', 'p': [last], 'blob': 't'},
                        {'a': 'ModifyInPlace', 'p': [order[0]], 'blob': 't'}],
                adds + [{'a': 'AddFp', 'blob': 's', 'iso': [extra_name], 'jol': ['-'], 'udf': ['-']},
                        {'a': 'Reopen', 'same': False},
                        {'a': 'ModifyInPlace', 'p': [extra_name], 'blob': 't'}],
            ]
            # the same directory one level down, with a sub-directory in it, growing and shrinking
            dname = 'dD'
            sname = 'dS'
            names[dname] = {'iso': 'DDIR', 'rr': 'ddir', 'jol': 'ddir', 'udf': 'ddir'}
            names[sname] = {'iso': 'A0000SUB', 'rr': 'sub', 'jol': 'sub', 'udf': 'sub'}
            sub = [{'a': 'AddDir', 'iso': [dname], 'jol': ['-'], 'udf': ['-']}] + \
                  [{'a': 'AddFp', 'blob': 's', 'iso': [dname, n], 'jol': ['-'], 'udf': ['-']} for n in order] + \
                  [{'a': 'AddDir', 'iso': [dname, sname], 'jol': ['-'], 'udf': ['-']}] + \
                  [{'a': 'AddFp', 'blob': 's', 'iso': [dname, extra_name], 'jol': ['-'], 'udf': ['-']}] + \
                  [{'a': 'RmFile', 'ns': 'iso', 'p': [dname, n]} for n in order[len(order) // 2:]] + \
                  [{'a': 'RmFile', 'ns': 'iso', 'p': [dname, extra_name]}]
            variants.append(sub)
            for v in variants:
                k += 1
                cases.append(('p%d' % k, base + v, 6))
    # ---- path tables -------------------------------------------------------------------
    wits, st = witnesses('ptable', [14, 16, 18, 20], 300, 1, 10, 4096)
    stats.append(st)
    by = {}
    for w in wits:
        by.setdefault((w['kind'], w['n2'] > 0), []).append(w)
    chosen = []
    for key in sorted(by):
        ws = sorted(by[key], key=lambda w: json.dumps(w, sort_keys=True))
        chosen += rng.sample(ws, min(len(ws), 2 if quick else 8))

    def dname_(grp, L, i):
        nid = 'D%s%d_%d' % (grp, L, i)
        if nid not in names:
            ident = dir_name(grp, i, L - 8)
            names[nid] = {'iso': ident, 'rr': nid.lower(), 'jol': nid.lower(), 'udf': nid.lower()}
        return nid
    for w in chosen:
        order = [dname_('A', w['l1'], i) for i in range(w['n1'])] + [dname_('B', w['l2'], i) for i in range(w['n2'])]
        for cfg in ({'level': 3, 'joliet': 0, 'rr': '', 'udf': False, 'xa': False},
                    {'level': 3, 'joliet': 3, 'rr': '', 'udf': False, 'xa': False}):
            jol = cfg['joliet'] != 0
            base = [{'a': 'New', 'cfg': cfg, 'mode': 'lazy'}]
            adds = [{'a': 'AddDir', 'iso': [n], 'jol': [n] if jol else ['-'], 'udf': ['-']} for n in order]
            last = order[-1]
            other = dname_('C', 20, 0)
            variants = [
                adds,
                adds + [{'a': 'RmDir', 'iso': [last], 'jol': [last] if jol else ['-'], 'udf': ['-']}],
                adds + [{'a': 'RmDir', 'iso': [last], 'jol': [last] if jol else ['-'], 'udf': ['-']},
                        {'a': 'RmDir', 'iso': [order[-2]], 'jol': [order[-2]] if jol else ['-'], 'udf': ['-']}],
                adds + [{'a': 'AddDir', 'iso': [other], 'jol': [other] if jol else ['-'], 'udf': ['-']},
                        {'a': 'RmDir', 'iso': [other], 'jol': [other] if jol else ['-'], 'udf': ['-']}],
            ]
            for v in variants:
                k += 1
                cases.append(('p%d' % k, base + v, 3))
    return names, cases, stats
