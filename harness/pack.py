"""Boundary witnesses from the reference allocator (spec/DirPack.tla): directories and path tables
that end exactly on / just across a sector (or 4096-byte path table unit) boundary."""
import json

import tlc
from realize import Table

CFG = '''SPECIFICATION Spec
CONSTANTS
 Mode = "%(Mode)s"
 Unit = %(Unit)d
 Head0 = %(Head)d
 Lens = {%(Lens)s}
 MaxRecs = %(MaxRecs)d
 MaxUnits = %(MaxUnits)d
INVARIANT NoStraddle
PROPERTY Monotone
CONSTRAINT Bound
CONSTRAINT Witness
CHECK_DEADLOCK FALSE
'''


def witnesses(mode, lens, maxrecs, maxunits, head, unit, workers=8):
    p = dict(Mode=mode, Unit=unit, Head=head, Lens=', '.join(str(x) for x in lens), MaxRecs=maxrecs,
             MaxUnits=maxunits)
    out, stats = tlc.run_tlc('DirPack', CFG % p, workers=workers, timeout=600)
    tlc.need_ok(out, stats, 'DirPack')
    wits = [v for (tag, v) in tlc.tagged_lines(out) if tag == 'WIT']
    return wits, stats


def iso_name(group, idx, len_fi):
    """a level-4 / level-3 file identifier of exactly len_fi bytes, sorting by (group, idx)"""
    core = '%s%04d' % (group, idx)          # 5 chars
    tail = '.;1'
    fill = len_fi - len(core) - len(tail)
    if fill < 0:
        raise ValueError('identifier too short')
    return core + 'X' * fill + tail


def dir_name(group, idx, length):
    core = '%s%04d' % (group, idx)
    return core + 'D' * (length - len(core))


def dir_case(w, cfg):
    """witness -> (names table dict, history).  Plain ISO9660 records: reclen = 33 + len_fi (+1 if even)."""
    names = {}
    hist = [{'a': 'New', 'cfg': cfg, 'mode': 'lazy'}]
    order = []
    for (grp, L, n) in (('A', w['l1'], w['n1']), ('B', w['l2'], w['n2'])):
        len_fi = L - 33                      # L even => len_fi odd, no padding byte
        for i in range(n):
            nid = '%s%d' % (grp.lower(), i)
            ident = iso_name(grp, i, len_fi)
            names[nid] = {'iso': ident, 'rr': ident.lower()[:8] + nid, 'jol': nid, 'udf': nid}
            order.append(nid)
    for nid in order:
        hist.append({'a': 'AddFp', 'blob': 's', 'iso': [nid], 'jol': ['-'], 'udf': ['-']})
    return names, hist, order


PLAIN = {'level': 4, 'joliet': 0, 'rr': '', 'udf': False, 'xa': False}
CFGS_DIR = [
    ({'level': 4, 'joliet': 0, 'rr': '', 'udf': False, 'xa': False}, 0),
    ({'level': 3, 'joliet': 0, 'rr': '', 'udf': False, 'xa': False}, 0),
    ({'level': 4, 'joliet': 0, 'rr': '', 'udf': False, 'xa': True}, 14),
    ({'level': 3, 'joliet': 0, 'rr': '', 'udf': True, 'xa': False}, 0),
]


def nid_file(grp, L, i):
    return '%s%d_%d' % (grp, L, i)


def build_cases(seed, quick=True):
    """-> (names table dict, list of (id, history, peek_last)) from DirPack witnesses"""
    import random
    rng = random.Random('pack/%s' % seed)
    names = {}
    cases = []
    stats = []

    def fname(grp, L, i, extra):
        nid = nid_file(grp, L - extra, i)
        if nid not in names:
            len_fi = L - extra - 33
            ident = iso_name(grp, i, len_fi)
            names[nid] = {'iso': ident, 'rr': nid, 'jol': nid, 'udf': nid}
        return nid

    # ---- directories --------------------------------------------------------------------
    wits, st = witnesses('dir', [48 + 2 * k for k in range(0, 10)], 48, 2, 68, 2048)
    stats.append(st)
    by = {}
    for w in wits:
        by.setdefault((w['kind'], w['unit'], w['n2'] > 0), []).append(w)
    chosen = []
    for key in sorted(by):
        ws = sorted(by[key], key=lambda w: json.dumps(w, sort_keys=True))
        chosen += rng.sample(ws, min(len(ws), 3 if quick else 12))
    k = 0
    for w in chosen:
        for (cfg, extra) in (CFGS_DIR if not quick else CFGS_DIR[:3]):
            order = [fname('A', w['l1'] + extra if False else w['l1'], i, 0) for i in range(w['n1'])] + \
                    [fname('B', w['l2'], i, 0) for i in range(w['n2'])]
            if extra:
                # XA adds 14 bytes to every record: shorten the identifiers by 14 to keep the lengths
                if w['l1'] - 14 - 33 < 9 or w['l2'] - 14 - 33 < 9:
                    continue
                order = [fname('A', w['l1'], i, 14) for i in range(w['n1'])] + \
                        [fname('B', w['l2'], i, 14) for i in range(w['n2'])]
            if cfg['level'] == 3 and False:
                continue
            base = [{'a': 'New', 'cfg': cfg, 'mode': 'lazy'}]
            adds = [{'a': 'AddFp', 'blob': 's', 'iso': [n], 'jol': ['-'], 'udf': ['-']} for n in order]
            last = order[-1]
            extra_name = fname('C', 60, 0, 14 if extra else 0)
            variants = [
                adds,
                adds + [{'a': 'RmFile', 'ns': 'iso', 'p': [last]}],
                adds + [{'a': 'AddFp', 'blob': 's', 'iso': [extra_name], 'jol': ['-'], 'udf': ['-']}],
                # one more record and away again: after an exact fit it was alone in its sector
                adds + [{'a': 'AddFp', 'blob': 's', 'iso': [extra_name], 'jol': ['-'], 'udf': ['-']},
                        {'a': 'RmFile', 'ns': 'iso', 'p': [extra_name]}],
                adds + [{'a': 'Reopen', 'same': False},
                        {'a': 'ModifyInPlace', 'p': [last], 'blob': 't'},
                        {'a': 'ModifyInPlace', 'p': [order[0]], 'blob': 't'}],
                adds + [{'a': 'AddFp', 'blob': 's', 'iso': [extra_name], 'jol': ['-'], 'udf': ['-']},
                        {'a': 'Reopen', 'same': False},
                        {'a': 'ModifyInPlace', 'p': [extra_name], 'blob': 't'}],
            ]
            # a second name of the first file that sorts last: its record is in another sector of the
            # directory than the record the in-place call is given
            zlink = 'zL'
            names[zlink] = {'iso': 'ZZZZLINK.;1', 'rr': 'zzzzlink', 'jol': 'zzzzlink', 'udf': 'zzzzlink'}
            variants.append(adds + [{'a': 'AddHardLink', 'ons': 'iso', 'old': [order[0]], 'nns': 'iso', 'new': [zlink]},
                                    {'a': 'Reopen', 'same': False},
                                    {'a': 'ModifyInPlace', 'p': [order[0]], 'blob': 't'},
                                    {'a': 'ModifyInPlace', 'p': [zlink], 'blob': 's'}])
            # the same directory one level down, with a sub-directory in it, growing and shrinking
            dname = 'dD'
            sname = 'dS'
            names[dname] = {'iso': 'DDIR', 'rr': 'ddir', 'jol': 'ddir', 'udf': 'ddir'}
            names[sname] = {'iso': 'A0000SUB', 'rr': 'sub', 'jol': 'sub', 'udf': 'sub'}
            sub = [{'a': 'AddDir', 'iso': [dname], 'jol': ['-'], 'udf': ['-']}] + \
                  [{'a': 'AddFp', 'blob': 's', 'iso': [dname, n], 'jol': ['-'], 'udf': ['-']} for n in order] + \
                  [{'a': 'AddDir', 'iso': [dname, sname], 'jol': ['-'], 'udf': ['-']}] + \
                  [{'a': 'AddFp', 'blob': 's', 'iso': [dname, extra_name], 'jol': ['-'], 'udf': ['-']}] + \
                  [{'a': 'RmFile', 'ns': 'iso', 'p': [dname, n]} for n in order[len(order) // 2:]] + \
                  [{'a': 'RmFile', 'ns': 'iso', 'p': [dname, extra_name]}]
            variants.append(sub)
            # ... and growing while the sub-directory is already there (its ".." must follow), mastered
            # in the grown state
            grow = [{'a': 'AddDir', 'iso': [dname], 'jol': ['-'], 'udf': ['-']},
                    {'a': 'AddDir', 'iso': [dname, sname], 'jol': ['-'], 'udf': ['-']}] + \
                   [{'a': 'AddFp', 'blob': 's', 'iso': [dname, n], 'jol': ['-'], 'udf': ['-']} for n in order] + \
                   [{'a': 'AddFp', 'blob': 's', 'iso': [dname, extra_name], 'jol': ['-'], 'udf': ['-']}]
            variants.append(grow)
            for v in variants:
                k += 1
                cases.append(('p%d' % k, base + v, 6))
    # ---- Joliet directories: the same witnesses, record length = 34 + 2 * (UCS-2 characters) ------
    def jname(grp, L, i):
        nid = 'J%s%d_%d' % (grp, L, i)
        if nid not in names:
            n = (L - 34) // 2
            base = '%s%03d' % (grp.lower(), i)
            jol = (base + '\u00e9' * n)[:n]          # non-ASCII filler: UTF-8 and UCS-2 lengths differ
            names[nid] = {'iso': nid + '.;1', 'rr': nid.lower(), 'jol': jol, 'udf': nid.lower()}
        return nid
    for w in chosen[:(6 if quick else len(chosen))]:
        if (w['l1'] - 34) // 2 < 5 or (w['l2'] - 34) // 2 < 5 or max(w['l1'], w['l2']) - 34 > 64:
            continue
        cfg = {'level': 3, 'joliet': 3, 'rr': '', 'udf': False, 'xa': False}
        order = [jname('A', w['l1'], i) for i in range(w['n1'])] + [jname('B', w['l2'], i) for i in range(w['n2'])]
        base = [{'a': 'New', 'cfg': cfg, 'mode': 'lazy'}]
        adds = [{'a': 'AddFp', 'blob': 's', 'iso': ['-'], 'jol': [n], 'udf': ['-']} for n in order]
        extra_j = jname('C', 60, 0)
        for v in (adds, adds + [{'a': 'AddFp', 'blob': 's', 'iso': ['-'], 'jol': [extra_j], 'udf': ['-']}],
                  adds + [{'a': 'AddFp', 'blob': 's', 'iso': ['-'], 'jol': [extra_j], 'udf': ['-']},
                          {'a': 'RmHardLink', 'ns': 'jol', 'p': [extra_j]}],
                  adds + [{'a': 'RmHardLink', 'ns': 'jol', 'p': [order[-1]]}]):
            k += 1
            cases.append(('p%d' % k, base + v, 6))
    # ---- path tables -------------------------------------------------------------------
    wits, st = witnesses('ptable', [14, 16, 18, 20], 300, 1, 10, 4096)
    stats.append(st)
    by = {}
    for w in wits:
        by.setdefault((w['kind'], w['n2'] > 0), []).append(w)
    chosen = []
    for key in sorted(by):
        ws = sorted(by[key], key=lambda w: json.dumps(w, sort_keys=True))
        chosen += rng.sample(ws, min(len(ws), 1 if quick else 8))

    def dname_(grp, L, i):
        nid = 'D%s%d_%d' % (grp, L, i)
        if nid not in names:
            ident = dir_name(grp, i, L - 8)
            names[nid] = {'iso': ident, 'rr': nid.lower(), 'jol': nid.lower(), 'udf': nid.lower()}
        return nid
    for w in chosen:
        order = [dname_('A', w['l1'], i) for i in range(w['n1'])] + [dname_('B', w['l2'], i) for i in range(w['n2'])]
        for cfg in ({'level': 3, 'joliet': 0, 'rr': '', 'udf': False, 'xa': False},
                    {'level': 3, 'joliet': 3, 'rr': '', 'udf': False, 'xa': False}):
            jol = cfg['joliet'] != 0
            base = [{'a': 'New', 'cfg': cfg, 'mode': 'lazy'}]
            adds = [{'a': 'AddDir', 'iso': [n], 'jol': [n] if jol else ['-'], 'udf': ['-']} for n in order]
            last = order[-1]
            other = dname_('C', 20, 0)
            variants = [
                adds,
                adds + [{'a': 'RmDir', 'iso': [last], 'jol': [last] if jol else ['-'], 'udf': ['-']}],
                adds + [{'a': 'RmDir', 'iso': [last], 'jol': [last] if jol else ['-'], 'udf': ['-']},
                        {'a': 'RmDir', 'iso': [order[-2]], 'jol': [order[-2]] if jol else ['-'], 'udf': ['-']}],
                adds + [{'a': 'AddDir', 'iso': [other], 'jol': [other] if jol else ['-'], 'udf': ['-']},
                        {'a': 'RmDir', 'iso': [other], 'jol': [other] if jol else ['-'], 'udf': ['-']}],
            ]
            for v in variants:
                k += 1
                cases.append(('p%d' % k, base + v, 3))
    for fn in (ce_cases, fid_cases):
        n2, c2, s2 = fn(seed, quick)
        names.update(n2)
        cases += c2
        stats += s2
    return names, cases, stats


CE_CFG = '''SPECIFICATION Spec
CONSTANTS
 Base = %(Base)d
 Block = 2048
 MaxLive = %(MaxLive)d
 MaxOps = %(MaxOps)d
INVARIANT NoOverlap
INVARIANT InBlock
CONSTRAINT Witness
VIEW View
CHECK_DEADLOCK FALSE
'''


def ce_witnesses(base, maxlive, maxops, workers=8):
    out, stats = tlc.run_tlc('CeAlloc', CE_CFG % dict(Base=base, MaxLive=maxlive, MaxOps=maxops),
                             workers=workers, timeout=600)
    tlc.need_ok(out, stats, 'CeAlloc')
    wits = [v for (tag, v) in tlc.tagged_lines(out) if tag == 'WIT']
    return wits, stats


def ce_cases(seed, quick=True):
    """continuation-area boundary witnesses -> (names, cases): long Rock Ridge names whose lengths
    differ by one byte, added and removed so that an area lands exactly in / just misses a hole"""
    import random
    rng = random.Random('ce/%s' % seed)
    base = 500
    wits, st = ce_witnesses(base, 4, 6 if quick else 7)
    by = {}
    for w in wits:
        by.setdefault((w['kind'], len(w['h'])), []).append(w)
    chosen = []
    for key in sorted(by):
        ws = sorted(by[key], key=lambda w: json.dumps(w, sort_keys=True))
        chosen += rng.sample(ws, min(len(ws), 4 if quick else 20))
    names = {}
    cases = []
    k = 0
    for w in chosen:
        for (cfg, namelen) in (({'level': 3, 'joliet': 0, 'rr': '1.09', 'udf': False, 'xa': False}, 470),
                               ({'level': 3, 'joliet': 0, 'rr': '1.12', 'udf': False, 'xa': False}, 470),
                               ({'level': 1, 'joliet': 0, 'rr': '1.10', 'udf': False, 'xa': True}, 470)):
            hist = [{'a': 'New', 'cfg': cfg, 'mode': 'lazy'}]
            for op in w['h']:
                if op[0] == 'add':
                    cls = op[2] - base
                    nid = 'c%d_%d' % (cls, op[1])
                    if nid not in names:
                        rr = nid + 'y' * (namelen + cls - len(nid))
                        names[nid] = {'iso': 'C%d%d.;1' % (cls, op[1]), 'rr': rr, 'jol': nid, 'udf': nid}
                    hist.append({'a': 'AddFp', 'blob': 's', 'iso': [nid], 'jol': ['-'], 'udf': ['-']})
                else:
                    nid = [n for n in names if n.endswith('_%d' % op[1])]
                    nid = [a['iso'][0] for a in hist if a['a'] == 'AddFp' and a['iso'][0].endswith('_%d' % op[1])][-1]
                    hist.append({'a': 'RmFile', 'ns': 'iso', 'p': [nid]})
            k += 1
            cases.append(('q%d' % k, hist, 8))
            k += 1
            cases.append(('q%d' % k, hist + [{'a': 'Reopen', 'same': False}], 8))
            # the same history with the image written and opened again before the first removal: the
            # allocator then works on areas it has read from the image (C02)
            first_rm = next((i for i, a in enumerate(hist) if a['a'] == 'RmFile'), None)
            if first_rm is not None:
                k += 1
                cases.append(('q%d' % k, hist[:first_rm] + [{'a': 'Reopen', 'same': False}] + hist[first_rm:], 8))
    return names, cases, [st]


def fid_cases(seed, quick=True):
    """UDF directories whose File Identifier Descriptors end exactly on / just across a sector boundary
    (FID length = 38 + 1 + name bytes, padded to 4; FIDs are packed contiguously, head = parent FID 40)"""
    import random
    import string
    rng = random.Random('fid/%s' % seed)
    wits, st = witnesses('ptable', [40, 44, 48], 56, 2, 40, 2048)
    by = {}
    for w in wits:
        if (w['l1'] == 40 and w['n1'] > 50) or (w['l2'] == 40 and w['n2'] > 0):
            continue    # one-character names: only ~60 exist, keep them in the first group
        by.setdefault((w['kind'], w['unit'], w['n2'] > 0), []).append(w)
    chosen = []
    for key in sorted(by):
        ws = sorted(by[key], key=lambda w: json.dumps(w, sort_keys=True))
        chosen += rng.sample(ws, min(len(ws), 2 if quick else 8))
    alpha = string.ascii_lowercase + string.ascii_uppercase + string.digits
    names = {}

    def uname(grp, L, i):
        nid = 'u%s%d_%d' % (grp, L, i)
        if nid not in names:
            n = {40: 1, 44: 5, 48: 9}[L]
            if n == 1:
                s = alpha[i]
            else:
                s = ('%s%03d' % (grp, i)) + 'u' * (n - 4)
            names[nid] = {'iso': 'U%s%d%03d.;1' % (grp.upper(), L, i), 'rr': nid, 'jol': nid, 'udf': s}
        return nid
    cases = []
    k = 0
    for w in chosen:
        order = [uname('a', w['l1'], i) for i in range(w['n1'])] + [uname('b', w['l2'], i) for i in range(w['n2'])]
        for cfg in ({'level': 3, 'joliet': 0, 'rr': '', 'udf': True, 'xa': False},
                    {'level': 3, 'joliet': 3, 'rr': '1.09', 'udf': True, 'xa': False}):
            base = [{'a': 'New', 'cfg': cfg, 'mode': 'lazy'}]
            adds = [{'a': 'AddFp', 'blob': 's', 'iso': ['-'], 'jol': ['-'], 'udf': [n]} for n in order]
            more = uname('c', 44, 0)
            for v in (adds,
                      adds + [{'a': 'AddFp', 'blob': 's', 'iso': ['-'], 'jol': ['-'], 'udf': [more]}],
                      adds + [{'a': 'AddFp', 'blob': 's', 'iso': ['-'], 'jol': ['-'], 'udf': [more]},
                              {'a': 'RmFile', 'ns': 'udf', 'p': [order[-1]]}],
                      adds + [{'a': 'Reopen', 'same': False},
                              {'a': 'AddFp', 'blob': 's', 'iso': ['-'], 'jol': ['-'], 'udf': [more]}]):
                k += 1
                cases.append(('f%d' % k, base + v, 5))
    return names, cases, [st]
