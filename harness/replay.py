"""Direction A: replay behaviours (from TLC) on the real code; direction B shares
the trace format.  Builds the input of Trace_Model.tla and parses its verdicts."""
import json
import multiprocessing
import os
import tempfile

import hashlib
import zlib

import det
import tlc
import images
from decoders import iso9660
from realize import Table
from driver import Session, open_view

_TAB = None
_OPTS = None


def get_table(tabname):
    from realize import DYNAMIC
    return DYNAMIC[tabname] if tabname in DYNAMIC else Table.load(tabname)


def _init(tabname, opts):
    global _TAB, _OPTS  # pylint: disable=global-statement
    det.install()
    _TAB = get_table(tabname)
    _OPTS = opts


def replay_one(item):
    """item = (id, [actions]).  returns trace dict with inline observations."""
    (tid, acts) = item
    det.reset()
    s = Session(_TAB)
    ev = []
    for a in acts:
        before = None
        if a['a'] == 'ModifyInPlace' and s.backing is not None:
            before = s.backing.getvalue()
        res = s.apply(a)
        if res == 'Unsupported':
            ev.append({'a': a, 'res': res, 'o': None})
            break
        if s.iso is None or not getattr(s.iso, '_initialized', False):
            obs = None
        elif len(ev) < len(acts) - _OPTS.get('peek_last', 1 << 30):
            obs = 'skip'      # long behaviours: only the last steps are observed
        else:
            try:
                obs = s.peek()
            except Exception as e:  # pylint: disable=broad-except
                obs = {'peek_error': type(e).__name__ + ':' + str(e)[:100]}
        e = {'a': a, 'res': res, 'o': obs}
        ev.append(e)
        if a['a'] == 'ModifyInPlace':
            if before is None:
                e['ipk'] = []
                continue
            after = s.backing.getvalue()
            e['ipk'] = images.inplace_kinds(before, after, [_TAB.name('iso', n) for n in a['p']])
            # the backing file must itself be a valid image showing the new content
            (ores, v) = open_view(after, _TAB)
            b = {'a': {'a': 'BackingView'}, 'res': 'ok', 'wres': 'ok', 'ores': ores, 'o': v,
                 'base': 'none', 'basekind': 'none'}
            if v is not None:
                rep = iso9660.decode(after)
                v['dec'] = dec_obs(rep, _TAB, after)
                if zlib.crc32(str(tid).encode()) % 2 == 0:
                    b['item'] = images.image_item('%s@%d' % (tid, len(ev)), after, [], report=rep,
                                                  do_remaster=False, pad=0)
            ev.append(b)
    extra = {}
    fq = None
    if (_OPTS.get('diff') == 'sched' and s.iso is not None and getattr(s.iso, '_initialized', False)
            and zlib.crc32(str(tid).encode()) % 2 == 0):
        fq = _force_and_query(s, ev)
    if _OPTS.get('master', True) and s.iso is not None and getattr(s.iso, '_initialized', False):
        (wres, data, wlog) = s.master()
        m = {'a': {'a': 'Master'}, 'res': 'ok', 'wres': wres, 'ores': 'none', 'o': None}
        if data is not None:
            (ores, v) = open_view(data, _TAB)
            m['ores'] = ores
            m['o'] = v
            if _OPTS.get('decode', True):
                # the independent decoder looks at every written image, whether or not the library
                # itself can open it
                rep = iso9660.decode(data)
                dec = dec_obs(rep, _TAB, data)
                if v is not None:
                    v['dec'] = dec
                    if fq is not None:
                        v['dec']['fq'] = fq
                every = _OPTS.get('image_every', 0)
                if every and ((zlib.crc32(str(tid).encode()) % every) == 0 or v is None):
                    bits = [x['x'] for x in dec['iso'] if x['b'].startswith('bit:')]
                    extra['item'] = images.image_item(
                        str(tid), data, wlog, bit_sectors=bits, report=rep,
                        do_remaster=(zlib.crc32(str(tid).encode()) % (every * _OPTS.get('remaster_every', 1))) == 0,
                        expect={'joliet': (v['cfg']['joliet'] if v is not None else acts[0].get('cfg', {}).get('joliet', 0)),
                                'level': acts[0]['cfg']['level'] if 'cfg' in acts[0] else 1})
                    extra['sha'] = hashlib.sha256(data).hexdigest()
            if _OPTS.get('keep_image'):
                extra['image'] = data
                extra['wlog'] = wlog
        m['base'] = 'none'
        m['basekind'] = _OPTS.get('diff') or 'none'
        if _OPTS.get('diff'):
            m['base'] = _base_diff(acts, ev, data)
        ev.append(m)
    t = {'id': tid, 'ev': ev}
    t.update(extra)
    more = [e.pop('item') for e in ev if 'item' in e]
    if more:
        t['items2'] = more
    return t


def dec_obs(rep, tab, data=None):
    """what the independent ISO9660/Joliet decoder recovers, in model terms (name ids, blob ids)"""
    out = {'on': True, 'iso': [], 'jol': [], 'fq': [{'ns': 'none', 'p': [], 'x': 0, 'n': 0}]}
    for ns in ('iso', 'jol'):
        if ns not in rep['trees']:
            continue

        def ids(path):
            if ns == 'jol':
                return [tab.unname('jol', b''.join(int(c).to_bytes(2, 'big') for c in comp)
                                   .decode('utf-16_be', 'surrogatepass')) for comp in path]
            # (pycdlib writes non-ASCII ISO9660:1999 identifiers as UTF-8)
            out_ = []
            for comp in path:
                try:
                    out_.append(tab.unname('iso', bytes(comp).decode('utf-8')))
                except UnicodeDecodeError:
                    out_.append(tab.unname('iso', bytes(comp).decode('latin-1')))
            return out_
        for d in rep['trees'][ns]:
            if d['path']:
                out[ns].append({'p': ids(d['path']), 'k': 'dir', 'b': '',
                                'x': d['extent'] if isinstance(d['extent'], int) else -1,
                                'n': d['len'] if isinstance(d['len'], int) else -1})
        for f in rep['files'].get(ns, []):
            b = tab.sha.get(f['sha'], '?' + f['sha'][:8])
            if b.startswith('?') and data is not None and isinstance(f['extent'], int) and isinstance(f['size'], int) \
                    and f['size'] <= (1 << 22) and not f.get('parts'):
                b = tab.classify(data[f['extent'] * 2048:f['extent'] * 2048 + f['size']])
            out[ns].append({'p': ids(f['path']), 'k': 'file', 'b': b,
                            'x': f['extent'] if isinstance(f['extent'], int) else -1,
                            'n': f['size'] if isinstance(f['size'], int) else -1})
        out[ns].sort(key=lambda e: e['p'])
    return out


NO_RD = {'on': False, 'wiso': [], 'wrrv': [], 'wjol': [], 'wudf': [], 'fiso': [], 'frrv': [], 'fjol': [], 'fudf': []}
NO_DEC = {'on': False, 'iso': [], 'jol': [], 'fq': [{'ns': 'none', 'p': [], 'x': 0, 'n': 0}]}


def _force_and_query(s, ev):
    """force_consistency, then ask get_record for the location and length of every ISO9660/Joliet
    entry (C06: they must be what the image written next contains)"""
    try:
        s.iso.force_consistency()
        state = s.peek()
        out = []
        for ns in ('iso', 'jol'):
            for e in state[ns]:
                kw = {'iso': 'iso_path', 'jol': 'joliet_path'}[ns]
                rec = s.iso.get_record(**{kw: s.tab.path(ns, e['p'])})
                out.append({'ns': ns, 'p': e['p'], 'x': rec.extent_location(), 'n': rec.get_data_length()})
        return out
    except Exception as e:  # pylint: disable=broad-except
        return [{'ns': 'error', 'p': [type(e).__name__], 'x': 0, 'n': 0}]
SCHED = ('ForceConsistency', 'Query', 'Walk', 'Write')


def _base_diff(acts, ev, data):
    """master the behaviour again without the refused calls (diff='refused') or without the
    schedule steps and in lazy mode (diff='sched'); compare the bytes."""
    kind = _OPTS['diff']
    if kind == 'refused':
        keep = [a for (a, e) in zip(acts, ev) if e['res'] == 'ok']
        if len(keep) == len(acts):
            return 'none'
    else:
        keep = []
        for a in acts:
            if a['a'] in SCHED:
                continue
            if a['a'] == 'New' and a.get('mode') != 'lazy':
                a = dict(a, mode='lazy')
            keep.append(a)
        if keep == acts:
            return 'none'
    det.reset()
    s = Session(_TAB)
    if kind == 'refused':
        for a in keep:
            if s.apply(a) != 'ok':
                return 'base_step_failed'
    else:
        # the same calls must have the same outcome whatever the schedule
        want = [e['res'] for (a, e) in zip(acts, ev) if a['a'] not in SCHED]
        got = [s.apply(a) for a in keep]
        if got != want[:len(got)]:
            return 'differs_results'
    (wres, base, _) = s.master()
    if base is None:
        return 'same' if data is None else 'base_wfail:' + wres
    if data is None:
        return 'differs_wfail'
    return 'same' if base == data else 'differs'


def replay_all(tabname, behaviours, opts=None, procs=16):
    opts = opts or {}
    items = list(behaviours)
    if procs <= 1 or len(items) < 32:
        _init(tabname, opts)
        return [replay_one(it) for it in items]
    ctx = multiprocessing.get_context('fork')
    with ctx.Pool(procs, initializer=_init, initargs=(tabname, opts)) as pool:
        return pool.map(replay_one, items, chunksize=max(1, len(items) // (procs * 8)))


EMPTY_OBS = {'cfg': {'level': 1, 'joliet': 0, 'rr': '', 'udf': False, 'xa': False},
             'iso': [], 'rrv': [], 'jol': [], 'udf': [], 'npvd': 1, 'err': ['no_observation'],
             'elt': {'on': False, 'entries': []}}


def build_input(tab, traces):
    """dedupe observations; emit the JSON document Trace_Model.tla reads."""
    obs_index = {}
    obs_list = []

    def idx(o):
        if o == 'skip':
            return 0
        if o is None:
            o = EMPTY_OBS
        if 'peek_error' in o:
            o = dict(EMPTY_OBS, err=['peek:' + o['peek_error']])
        slim = {k: o[k] for k in ('cfg', 'iso', 'rrv', 'jol', 'udf', 'npvd', 'err')}
        elt = o.get('elt') or {'on': False, 'entries': []}
        slim['elt'] = {'on': elt['on'], 'entries': elt['entries']}
        slim['dec'] = o.get('dec', NO_DEC)
        slim['rd'] = o.get('rd', NO_RD)
        key = json.dumps(slim, sort_keys=True)
        if key not in obs_index:
            obs_list.append(slim)
            obs_index[key] = len(obs_list)
        return obs_index[key]

    out_tr = []
    for t in traces:
        ev = []
        for e in t['ev']:
            if e['res'] == 'Unsupported':
                break
            d = {'a': e['a'], 'res': e['res'], 'o': idx(e['o'])}
            if 'ipk' in e:
                d['ipk'] = e['ipk']
            if e['a']['a'] in ('Master', 'BackingView'):
                d['wres'] = e['wres']
                d['ores'] = e['ores']
                d['base'] = e.get('base', 'none')
                d['basekind'] = e.get('basekind', 'none')
            ev.append(d)
        out_tr.append({'id': t['id'], 'ev': ev})
    used = set()

    def note_paths(x):
        if isinstance(x, dict):
            for v in x.values():
                note_paths(v)
        elif isinstance(x, list):
            for v in x:
                if isinstance(v, str):
                    used.add(v)
                else:
                    note_paths(v)
    if len(tab.names) > 40:
        for t in out_tr:
            for e in t['ev']:
                note_paths(e['a'])
        for o in obs_list:
            for ns in ('iso', 'rrv', 'jol', 'udf'):
                for e in o[ns]:
                    used.update(e['p'])
                    if e.get('rr'):
                        used.add(e['rr'])
    names = [{'id': n, 'iso': [ord(c) for c in m['iso']], 'rr': [ord(c) for c in m['rr']],
              'jol': [ord(c) for c in m['jol']], 'udf': [ord(c) for c in m['udf']]}
             for n, m in sorted(tab.names.items()) if len(tab.names) <= 40 or n in used]
    blobs = [{'id': b, 'len': tab.blob_len(b)} for b in sorted(tab.blobs)]
    return {'names': names, 'blobs': blobs, 'targets': sorted(tab.targets), 'obs': obs_list,
            'traces': out_tr}


TRACE_CFG = '''SPECIFICATION TSpec
CONSTANTS
 Names <- TNames
 Blobs <- TBlobs
 Targets <- TTargets
 Code <- TCode
 BlobLen <- TBlobLen
CHECK_DEADLOCK FALSE
'''


def tla_str(s):
    return '"' + s.replace('\\', '\\\\').replace('"', '\\"') + '"'


def tla_seq(xs):
    return '<<' + ', '.join(str(x) for x in xs) + '>>'


def tables_module(doc):
    """TraceTables.tla: the realisation tables as literal TLA+ constants."""
    names = doc['names']
    lines = ['---- MODULE TraceTables ----', 'EXTENDS Naturals, Sequences']
    lines.append('TabNames == {' + ', '.join(tla_str(n['id']) for n in names) + '}')
    lines.append('TabBlobs == {' + ', '.join(tla_str(b['id']) for b in doc['blobs']) + '}')
    lines.append('TabTargets == {' + ', '.join(tla_str(t) for t in doc['targets']) + '}')
    cases = ' [] '.join('n = %s -> [iso |-> %s, rr |-> %s, jol |-> %s, udf |-> %s]' % (
        tla_str(n['id']), tla_seq(n['iso']), tla_seq(n['rr']), tla_seq(n['jol']), tla_seq(n['udf']))
        for n in names)
    lines.append('TabCode == [n \\in TabNames |-> CASE ' + cases + ']')
    bcases = ' [] '.join('b = %s -> %d' % (tla_str(b['id']), b['len']) for b in doc['blobs'])
    lines.append('TabBlobLen == [b \\in TabBlobs |-> CASE ' + bcases + ']')
    lines.append('====')
    return '\n'.join(lines) + '\n'


def validate(doc, workers=8, timeout=3600):
    """run Trace_Model on the document; returns dict with diags, overs, skips, ended ids, stats."""
    fd, path = tempfile.mkstemp(prefix='verif-trace-', suffix='.json')
    try:
        with os.fdopen(fd, 'w') as f:
            json.dump(doc, f)
        out, stats = tlc.run_tlc('Trace_Model', TRACE_CFG, workers=workers,
                                 env={'TRACE_FILE': path}, timeout=timeout, heap='3g',
                                 aux_modules={'TraceTables': tables_module(doc)})
    finally:
        os.unlink(path)
    res = {'diag': [], 'over': [], 'skip': [], 'end': [], 'stats': stats}
    for tag, val in tlc.tagged_lines(out):
        if tag == 'DIAG':
            res['diag'].append(val)
        elif tag == 'OVER':
            res['over'].append(val)
        elif tag == 'SKIP':
            res['skip'].append(val)
        elif tag == 'END':
            res['end'].append(val['tid'])
    tlc.need_ok(out, stats, 'Trace_Model')
    if len(set(res['end'])) != len(doc['traces']):
        raise tlc.TlcError('Trace_Model ended %d of %d traces' % (len(set(res['end'])), len(doc['traces'])))
    return res


def validate_sharded(tab, traces, shards=8, workers=1, max_traces=1500):
    """split traces into batches validated by parallel single-worker TLC runs (at most `shards` at a
    time, at most max_traces traces per run)"""
    if not traces:
        return {'diag': [], 'over': [], 'skip': [], 'end': [], 'stats': [], 'nobs': 0}
    if len(traces) < 200:
        parts = [traces]
    else:
        nparts = max(shards, -(-len(traces) // max_traces))
        parts = [traces[i::nparts] for i in range(nparts)]
        parts = [p for p in parts if p]
    docs = [build_input(tab, p) for p in parts]
    ctx = multiprocessing.get_context('fork')
    with ctx.Pool(min(shards, len(docs))) as pool:
        results = pool.starmap(validate, [(d, workers) for d in docs])
    merged = {'diag': [], 'over': [], 'skip': [], 'end': [], 'stats': []}
    for r in results:
        for k in ('diag', 'over', 'skip', 'end'):
            merged[k].extend(r[k])
        merged['stats'].append(r['stats'])
    merged['nobs'] = sum(len(d['obs']) for d in docs)
    return merged
