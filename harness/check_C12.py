"""C12 - hybrid (MBR/GPT/APM) boot data is consistent with the image it describes.

TLC enumerates behaviours of spec/MC_boot.tla (profiles c12g: geometry/partition grid on canned
BIOS / EFI / EFI+Mac images whose EFI and Mac sections have different sizes and whose catalog order
differs from their name order, with and without second ISO9660 names (hard links) of the boot files
made before add_eltorito; c12h: every transition of the bounded graph of edits that move the
boot files or give them second names before/after add_isohybrid; c12s: simulation seeded by --seed).  Each behaviour is
replayed on the real pycdlib (lazy and always-consistent objects, several namespace
configurations), mastered with and without the isohybrid calls (differential run -> `diffkinds`),
decoded by decoders/hybrid.py + decoders/eltorito.py, and judged by TLC (Judge_C12 over Boot.tla).
"""
import det; det.install()  # noqa: E702  pylint: disable=multiple-statements,wrong-import-position

import random
import sys

import checklib
import check_C11 as L


def c12_circumstance(clause, hist, cfgname, item):
    """the known-defect trigger (a fact of the behaviour, in model terms) that can explain a failing
    clause; classification only: TLC has already decided that the clause fails."""
    div = item['expect']['div']
    # facts up to the call that diverged (that call included when it is the add_isohybrid itself:
    # on an always-consistent object extent assignment runs inside it)
    fs = L.facts(hist, cfgname, (div[0]['k'] if div[0]['want'] == 'ok' and div[0]['act'] != 'Reopen' else div[0]['k'] - 1) if div else None)
    if 'reopened_image_had_lost_its_tail' in fs:
        return 'efi_padding_smaller_than_backup_gpt'
    if clause in ('ApiOutcomeAsModelled', 'Mastered'):
        msg = div[0]['got'] if div else item['expect']['master']
        act = div[0]['act'] if div else 'write'
        if div and div[0]['want'] == 'refuse':
            return '%s/%s:refuse->%s' % (act, div[0]['why'], ':'.join(msg.split(':')[:2]))
        if act == 'Reopen' and 'PyCdlibInvalidISO' in msg and 'efi_cylinder_smaller_than_backup_gpt' in fs:
            return 'efi_padding_smaller_than_backup_gpt'     # the image written at the reopen lost its tail
        if 'UDF Anchors' in msg and 'udf_name_removed_after_reopen' in fs:
            return 'udf_name_removed_after_reopen'
        if 'hybrid_reopened_geometry_misread' in fs and ('ZeroDivisionError' in msg or (act == 'AddIsohybrid' and msg == 'refuse')):
            return 'hybrid_reopened_geometry_misread'
        if 'Attempted to set EFI lba on a non-EFI ISO' in msg and 'bios_hybrid_with_efi_section' in fs:
            return 'bios_hybrid_with_efi_section'
        if ('Attempted to set Mac lba' in msg or 'Only expected two EFI sections' in msg) and 'more_efi_sections_than_used' in fs:
            return 'more_efi_sections_than_used'
        if 'negative seek value' in msg and 'efi' in fs and 'efi_section_shares_file_with_earlier_entry' in fs:
            return 'efi_section_shares_file_with_earlier_entry'
        if 'negative seek value' in msg and 'efi' in fs and ('isohybrid_on_consistent_object' in fs or 'hybrid_reopened' in fs):
            return 'efi_isohybrid_on_consistent_object'
        if 'No valid partition found in IsoHybrid' in msg and 'part_entry_collides_with_efi_or_mac_slot' in fs:
            return 'part_entry_collides_with_efi_or_mac_slot'
        return '%s:%s' % (act, ':'.join(msg.split(':')[:2]))
    if 'efi' in fs and item.get('pad0', 1 << 30) < 33 * 512:
        # the backup GPT (32 sectors of entries + header) is written over the end of the ISO itself
        return 'efi_padding_smaller_than_backup_gpt'
    if 'hybrid_reopened_geometry_misread' in fs and clause in (
            'PaddedToCylinder', 'GeometryCoversPaddedImage', 'TailIsZero', 'PrimaryBackupMirror.Located',
            'PrimaryBackupMirror.HeaderFields', 'IsoUnchangedModuloSystemAreaAndPadding'):
        return 'hybrid_reopened_geometry_misread'
    if clause == 'RbaIsFourTimesBootSector':
        if 'several_platform0_entries' in fs:
            return 'several_platform0_entries'
        if 'isohybrid_on_consistent_object' in fs:
            return 'isohybrid_on_consistent_object'
    if clause == 'ApmConsistent' and 'mac' in fs:
        return 'mac'
    if clause in ('EfiPartitionDelimitsItsSection', 'MacPartitionDelimitsItsSection'):
        if 'efi_sections_name_order_differs_from_catalog_order' in fs:
            return 'efi_sections_name_order_differs_from_catalog_order'
        if clause.startswith('Efi') and 'efi_section_size_differs_from_last_section' in fs:
            return 'efi_section_size_differs_from_last_section'
        if clause.startswith('Mac') and 'mac_section_size_differs_from_last_section' in fs:
            return 'mac_section_size_differs_from_last_section'
        if 'efi_section_shares_file_with_earlier_entry' in fs:
            return 'efi_section_shares_file_with_earlier_entry'
        if 'isohybrid_on_consistent_object' in fs:
            return 'isohybrid_on_consistent_object'
    if clause in ('OneActivePartition', 'PartitionEntryAtRequestedSlot', 'PartitionType', 'PartitionOffset',
                  'GeometryCoversPaddedImage') and 'part_entry_collides_with_efi_or_mac_slot' in fs:
        return 'part_entry_collides_with_efi_or_mac_slot'
    if clause == 'GeometryCoversPaddedImage' and item.get('cyl0', 0) > 1024:
        return 'more_than_1024_cylinders'
    if clause.startswith('PrimaryBackupMirror') or clause in ('GptEntriesCrc', 'GptHeaderCrc'):
        if 'isohybrid_on_consistent_object' in fs and clause in ('PrimaryBackupMirror.Located', 'PrimaryBackupMirror.HeaderFields', 'GptHeaderCrc'):
            return 'isohybrid_on_consistent_object'
        return 'mac' if ('mac' in fs and clause == 'PrimaryBackupMirror.Extents') else 'efi'
    return 'none'


def run(ctx):
    if getattr(ctx, 'replay', None):
        return L.replay_file(ctx, 'Judge_C12', True, c12_circumstance)
    quick = ctx.tier == 'quick'
    rnd = random.Random(ctx.seed)
    if quick:
        plan = [('c12g', 1, 1, 0, None, None, ['plain', 'all', 'plain+ac'], 400),
                ('c12b', 1, 1, 0, None, None, ['plain'], 50),
                ('c12h', 3, 1, 1, None, None, ['plain', 'udf', 'jol+ac'], 3300),
                ('c12s', 8, 2, 2, 25, 9, ['plain', 'all'], 150)]
    else:
        plan = [('c12G', 1, 1, 0, None, None, ['plain', 'all+ac'], 2500),
                ('c12g', 1, 1, 0, None, None, ['plain', 'jol', 'rr', 'udf', 'all', 'plain+ac', 'all+ac'], 400),
                ('c12b', 1, 1, 0, None, None, ['plain', 'all'], 50),
                ('c12h', 4, 1, 1, None, None, ['plain', 'udf', 'jol+ac', 'all'], 12000),
                ('c12s', 12, 2, 2, 300, 13, ['plain', 'all', 'rr+ac'], 3000)]
    stats_list = []
    hists = []
    tasks = []
    for (profile, maxlen, maxref, maxgen, sim, depth, cfgs, cap) in plan:
        hs, st = L.behaviours(profile, maxlen, maxref, maxgen, simulate=sim, depth=depth, seed=ctx.seed)
        stats_list.append(st)
        print('MC_boot %s: %s states generated, %s distinct, %d behaviours (%.1fs)' % (
            profile, st.get('generated'), st.get('distinct'), len(hs), st['wall_s']), flush=True)
        if len(hs) > cap:
            # stratified: behaviours that end with a hybrid image first (all of them if they fit), at
            # least a sixth of the budget for those that end without one (only NoHybridLeftAfterRemoval
            # is judged on them)
            on = [hh for hh in hs if hh['exp']['hyb']['on']]
            off = [hh for hh in hs if not hh['exp']['hyb']['on']]
            n_off = min(len(off), max(cap // 6, cap - len(on)))
            n_on = min(len(on), cap - n_off)
            hs = rnd.sample(on, n_on) + rnd.sample(off, n_off)
        for hh in hs:
            hists.append(hh)
            for c in cfgs:
                tasks.append((len(hists) - 1, c))
    L.finish_tlc(ctx, stats_list)
    t0 = det.real_time()
    results = L.run_all([(hists[i], c, True) for (i, c) in tasks])
    print('replayed %d (behaviour, configuration) pairs (+ differential runs) in %.1fs' % (
        len(tasks), det.real_time() - t0), flush=True)
    items = []
    meta = {}
    for (i, c), r in zip(tasks, results):
        if r['kind'] == 'crash':
            raise RuntimeError('harness crash in %s: %s' % (c, r['err']))
        if r['kind'] == 'dead':
            ctx.note('behaviours_ending_in_mutating_refusal(C14)')
            if r['write_after_taint'] != 'ok':
                ctx.note('write_fails_after_refused_call(C14:S7)')
            continue
        it = r['item']
        it['id'] = 'h%d/%s' % (i, c)
        items.append(it)
        meta[it['id']] = (i, c)
    t0 = det.real_time()
    fails, nuniq, jstats = L.judge_items('Judge_C12', items)
    print('TLC judged %d observations (%d distinct) in %.1fs; %d with failing clauses' % (
        len(items), nuniq, det.real_time() - t0, len(fails)), flush=True)
    by_id = dict((it['id'], it) for it in items)
    for iid, clauses in sorted(fails.items()):
        i, c = meta[iid]
        for cl in clauses:
            sig = {'clause': cl, 'circumstance': c12_circumstance(cl, hists[i], c, by_id[iid])}
            ctx.violation(sig, {'history': L.hist_brief(hists[i]), 'cfg': c, 'failing': clauses,
                                'diffwhere': by_id[iid].get('diffwhere')},
                          {'hist': hists[i], 'cfg': c, 'expect': by_id[iid]['expect']})
            ctx.note('failing:' + cl)
    hyb = [it for it in items if it['expect']['hyb']['on'] and it['expect']['master'] == 'ok' and not it['expect']['div']]
    cyl = [it['hyb']['filelen'] // 512 // (it['expect']['hyb']['heads'] * it['expect']['hyb']['sectors']) for it in hyb]
    ctx.coverage.update({
        'traces_validated_against_impl': len(items),
        'evaluations': len(items), 'distinct_nontrivial': nuniq,
        'rule': 'behaviours of MC_boot (c12g/c12G: every add_isohybrid of the parameter grid on the canned images; '
                'c12h: every transition of the bounded edit graph; c12s: simulation seeded by --seed) x configurations '
                '(namespaces x lazy/always-consistent); distinct = distinct (reports, diffkinds, expectation) judged by TLC',
        'hybrid_images_judged': len(hyb),
        'geometries': sorted(set('%dx%d' % (it['expect']['hyb']['sectors'], it['expect']['hyb']['heads']) for it in hyb)),
        'efi_mac': sorted(set('efi=%s,mac=%s' % (it['expect']['hyb']['efi'], it['expect']['hyb']['mac']) for it in hyb)),
        'max_cylinders': max(cyl or [0]), 'images_beyond_1024_cylinders': sum(1 for c in cyl if c > 1024),
        'second_names': L.link_coverage(hists),
        'configurations': sorted(set(c for (_, c) in tasks)),
        'judge_states': sum(s.get('generated', 0) for s in jstats),
        'exhaustive': False,
    })
    for i in (0, len(hists) // 2, len(hists) - 1):
        ctx.sample({'history': L.hist_brief(hists[i]), 'expected_hyb': hists[i]['exp']['hyb']})
    ctx.assumptions += ['decoders/hybrid.py implements the MBR/GPT (UEFI ch.5)/APM layouts correctly; CRC32 is zlib.crc32',
                        'isohybrid semantics as stated in the header of spec/Boot.tla (syslinux isohybrid)',
                        'second names (hard links) of boot files: one alias per file, ISO9660 (+Rock Ridge) only, made from the original '
                        'name before add_eltorito (canned prefixes) or at any later point (action AddLink); the alias is never the path '
                        'given to add_eltorito; c12h is sampled in the quick tier: every behaviour that ends with a hybrid image, a sample of the others',
                        'images of 2 GiB and more are not built (TLC integers are 32 bit; thorough tier crosses 1024 cylinders with small geometries)']


if __name__ == '__main__':
    sys.exit(checklib.main('C12', 'model_checking', run))
