"""Sensitivity of the C08 machinery: corrupt specific bytes of images that pass every clause and
show that TLC (Judge_Susp) names the expected clause.

    PYTHONHASHSEED=0 PYTHONPATH=/verif/harness:/repo /venv/bin/python harness/selftest_susp.py

Exit 0 when the unmodified images pass and every corruption is caught by (at least) the clause
expected for it; 1 otherwise.
"""
import det; det.install()    # noqa: E702

import struct
import sys

import check_C08 as c08
import judge
from decoders import susp

SECTOR = 2048


def base_case(ver='1.09', xa=False):
    ops = [['dir', '/DIRA', 'dir-a', 0o040755],
           ['file', '/DIRA/F1.;1', 'short', 0o100644, 5],
           ['file', '/LONG.;1', 'L' * 200, 0o100444, 9],          # NM split, PX/TF in the continuation area
           ['file', '/LONG2.;1', 'M' * 180, 0o100444, 9],         # a second continuation area in the same block
           ['symlink', '/SYM.;1', 'sym', '/abs/./../x//' + 'y' * 300]]
    p = ''
    for k in range(1, 10):
        p += '/D%d' % k
        ops.append(['dir', p, 'd%d' % k, 0o040755])
    ops.append(['file', p + '/DEEP.;1', 'deep', 0o100644, 3])
    return {'id': 'base-%s-%s' % (ver, 'xa' if xa else 'no'), 'ver': ver, 'xa': xa, 'level': 3, 'ops': ops,
            'reopen': False}


def entry_positions(data, rep):
    """[(record, where, entry, absolute byte position)] for every SUSP entry"""
    out = []
    for r in rep['recs']:
        pos = r['pos'][0] * SECTOR + r['pos'][1] + 33 + r['len_fi'] + r['pad_fi'] + r['skip']
        for e in r['dr']['ents']:
            out.append((r, 'dr', e, pos))
            pos += e['len']
        for a in r['ce']:
            pos = a['block'] * SECTOR + a['off']
            for e in a['ents']:
                out.append((r, 'ce', e, pos))
                pos += e['len']
    return out


def find(ents, sig, pred=lambda r, w, e: True):
    for (r, w, e, pos) in ents:
        if e['sig'] == sig and pred(r, w, e):
            return r, w, e, pos
    raise LookupError(sig)


def both32(buf, pos, value):
    struct.pack_into('<I', buf, pos, value)
    struct.pack_into('>I', buf, pos + 4, value)


def mutations(data, rep):
    """yield (name, expected clause, mutated bytes)"""
    ents = entry_positions(data, rep)
    name_of = lambda r: bytes.fromhex(r['ident'])   # noqa: E731

    def mut(fn):
        b = bytearray(data)
        fn(b)
        return bytes(b)

    # CE of /LONG.;1
    r, w, e, pos = find(ents, 'CE', lambda r, w, e: name_of(r) == b'LONG.;1')
    off = e['off'][0]
    yield 'CE offset +1 (both byte orders)', 'CELandsOnArea', mut(lambda b: both32(b, pos + 12, off + 1))
    yield 'CE offset +1 (little-endian copy only)', 'CEBothEndianAgree', mut(lambda b: struct.pack_into('<I', b, pos + 12, off + 1))
    yield 'CE length -1', 'SuspLengthsAddUp', mut(lambda b: both32(b, pos + 20, e['clen'][0] - 1))
    yield 'CE offset 2000 (area leaves its sector)', 'CEInsideSector', mut(lambda b: both32(b, pos + 12, 2000))
    yield 'CE block := sector of the root directory', 'CELandsOnArea', mut(lambda b: both32(b, pos + 4, rep['root'][0]))
    r2, w2, e2, pos2 = find(ents, 'CE', lambda r, w, e: name_of(r) == b'LONG2.;1')
    yield 'CE of a second record := area of the first', 'CENoOverlap', mut(lambda b: both32(b, pos2 + 12, off))
    # NM
    r, w, e, p_nm = find(ents, 'NM', lambda r, w, e: name_of(r) == b'DIRA')
    yield 'NM length +1', 'SuspLengthsAddUp', mut(lambda b: b.__setitem__(p_nm + 2, b[p_nm + 2] + 1))
    yield 'NM CONTINUE flag on the last piece', 'NMWellFormed', mut(lambda b: b.__setitem__(p_nm + 4, 1))
    yield 'NM name byte changed', 'LogicalTreeMatches', mut(lambda b: b.__setitem__(p_nm + 5, ord('X')))
    yield 'entry version 2', 'SuspLengthsAddUp', mut(lambda b: b.__setitem__(p_nm + 3, 2))
    # CL / PL / RE
    r, w, e, p_cl = find(ents, 'CL')
    yield 'CL location +1', 'CLLandsOnDir', mut(lambda b: both32(b, p_cl + 4, e['loc'][0] + 1))
    r, w, e_pl, p_pl = find(ents, 'PL')
    yield 'PL location +1', 'PLLandsOnParent', mut(lambda b: both32(b, p_pl + 4, e_pl['loc'][0] + 1))
    r, w, e_re, p_re = find(ents, 'RE')
    yield 'RE entry renamed (RE -> PD)', 'RELabelsMoved', mut(lambda b: b.__setitem__(slice(p_re, p_re + 2), b'PD'))
    # PX
    r, w, e, p_px = find(ents, 'PX', lambda r, w, e: name_of(r) == b'DIRA')
    yield 'PX link count of a directory +1', 'NlinkOfDirs', mut(lambda b: both32(b, p_px + 12, e['nlink'][0] + 1))
    yield 'PX mode: directory entry says regular file', 'DirAttrsConsistent', mut(lambda b: both32(b, p_px + 4, 0o100755))
    r, w, e, p_pxf = find(ents, 'PX', lambda r, w, e: name_of(r) == b'F1.;1')
    yield 'PX mode of a file changed', 'LogicalTreeMatches', mut(lambda b: both32(b, p_pxf + 4, 0o100600))
    yield 'PX renamed (PX -> PD)', 'PXPresent', mut(lambda b: b.__setitem__(slice(p_pxf, p_pxf + 2), b'PD'))
    # SL
    r, w, e, p_sl = find(ents, 'SL', lambda r, w, e: w == 'dr')
    yield 'SL: first component ROOT -> PARENT', 'LogicalTreeMatches', mut(lambda b: b.__setitem__(p_sl + 5, 4))
    yield 'SL: CONTINUE cleared on a continued SL entry', 'SLWellFormed', mut(lambda b: b.__setitem__(p_sl + 4, 0))
    # SP / ER / RR
    r, w, e, p_sp = find(ents, 'SP')
    yield 'SP check byte', 'SPPresentInRootDot', mut(lambda b: b.__setitem__(p_sp + 4, 0xBF))
    r, w, e, p_er = find(ents, 'ER')
    yield 'ER renamed (ER -> PD)', 'ERPresentOnce', mut(lambda b: b.__setitem__(slice(p_er, p_er + 2), b'PD'))
    try:
        r, w, e, p_rr = find(ents, 'RR', lambda r, w, e: name_of(r) == b'DIRA')
        yield 'RR flags without NM', 'RRFlagsMatchEntries', mut(lambda b: b.__setitem__(p_rr + 4, e['flags'] & ~8))
    except LookupError:
        pass


def main():
    bad = 0
    total = 0
    for (ver, xa) in (('1.09', False), ('1.12', True)):
        case = base_case(ver, xa)
        data, exp, failure = c08.run_ops(case)
        if data is None:
            print('FAIL could not build the base image: %s' % (failure,))
            return 1
        rep = susp.decode(data)      # full report (positions), byte lists
        items = []
        expected = {}

        def item_for(iid, blob):
            return {'id': iid, 'wrote': True,
                    'want': {'version': ver, 'xa': xa, 'reloc': c08.RELOC_HEX},
                    'expect': exp.listing(), 'rep': c08.lean(susp.decode(blob, names='hex')),
                    'reopen': {'done': False, 'ok': True, 'view': [], 'exc': '', 'msg': ''}}

        items.append(item_for('%s/unmodified' % case['id'], data))
        expected[items[0]['id']] = None
        rep_hex = susp.decode(data, names='hex')
        for (name, clause, blob) in mutations(data, rep_hex):
            iid = '%s/%s' % (case['id'], name)
            items.append(item_for(iid, blob))
            expected[iid] = clause
        fails, _ = judge.judge('Judge_Susp', items)
        for it in items:
            total += 1
            got = fails.get(it['id'], [])
            want = expected[it['id']]
            if want is None:
                ok = not got
            else:
                ok = want in got
            if not ok:
                bad += 1
            print('%s %-72s expected %-22s failing %s' % ('ok  ' if ok else 'FAIL', it['id'], want, got))
    print('%d of %d as expected' % (total - bad, total))
    return 1 if bad else 0


if __name__ == '__main__':
    sys.exit(main())
