"""C11 - El Torito boot structures point at the right bytes.

TLC enumerates behaviours of the explicit boot model (spec/MC_boot.tla: bounded exhaustively with a
VIEW = every transition of the bounded graph, plus -simulate seeded by --seed), each behaviour is
replayed on the real pycdlib in several namespace configurations, the mastered image is decoded by
the independent decoders (decoders/eltorito.py, decoders/hybrid.py) and TLC (Judge_C11 over
spec/Boot.tla) evaluates the clauses of the property on every observation.

This module also holds the machinery shared with check_C12.py and selftest_boot.py (realisation of
the model's abstract ids, replay, observation building, triage).
"""
import det; det.install()  # noqa: E702  pylint: disable=multiple-statements,wrong-import-position

import hashlib
import io
import json
import logging
import multiprocessing
import random
import struct
import sys

import checklib
import judge
import realize
import tlc
from decoders import eltorito as dec_elt
from decoders import hybrid as dec_hyb

logging.getLogger('pycdlib').setLevel(logging.ERROR)   # hdmbrcheck warnings are not errors

# ---------------------------------------------------------------------------------------------
# realisation of the model's abstract ids
# ---------------------------------------------------------------------------------------------
NAMES = {
    'A': {'iso': 'AAA.BIN;1', 'rr': 'aaa.bin', 'jol': 'aaa.bin', 'udf': 'aaa.bin'},
    'I': {'iso': 'ISOLINUX.BIN;1', 'rr': 'isolinux.bin', 'jol': 'isolinux.bin', 'udf': 'isolinux.bin'},
    'E': {'iso': 'EFIBOOT.IMG;1', 'rr': 'efiboot.img', 'jol': 'efiboot.img', 'udf': 'efiboot.img'},
    'M': {'iso': 'MACBOOT.IMG;1', 'rr': 'macboot.img', 'jol': 'macboot.img', 'udf': 'macboot.img'},
    'K': {'iso': 'KKK.IMG;1', 'rr': 'kkk.img', 'jol': 'kkk.img', 'udf': 'kkk.img'},
    'Z': {'iso': 'ZZZ.BIN;1', 'rr': 'zzz.bin', 'jol': 'zzz.bin', 'udf': 'zzz.bin'},
    'D': {'iso': 'DDD', 'rr': 'ddd', 'jol': 'ddd', 'udf': 'ddd'},
    'Y': {'iso': 'YYY', 'rr': 'yyy', 'jol': 'yyy', 'udf': 'yyy'},
}
# the second ISO9660 (+ Rock Ridge) name a file gets by add_hard_link (model action AddLink).  Directory
# order decides the order in which pycdlib places boot files, so some aliases sort before the
# original name and every other boot file (I, M, Z), others after (A, E, K):
#   ALINK.BIN < EFIBOOT.IMG < ISOLINUX.BIN;  DMAC.IMG < EFIBOOT.IMG < MACBOOT.IMG (the alias swaps the
#   name order of the EFI and Mac images);  EFIBOOT.IMG < ... < ZEFI.IMG
ALIAS = {
    'A': {'iso': 'ZALINK.BIN;1', 'rr': 'zalink.bin'},
    'I': {'iso': 'ALINK.BIN;1', 'rr': 'alink.bin'},
    'E': {'iso': 'ZEFI.IMG;1', 'rr': 'zefi.img'},
    'M': {'iso': 'DMAC.IMG;1', 'rr': 'dmac.img'},
    'K': {'iso': 'LKLINK.IMG;1', 'rr': 'lklink.img'},
    'Z': {'iso': 'BZLINK.BIN;1', 'rr': 'bzlink.bin'},
}
# namespace configurations; the catalog gets a different name in each
CFGS = {
    'plain': {'level': 1, 'joliet': None, 'rr': None, 'udf': None, 'mode': 'lazy',
              'cat': {'iso': 'BOOT.CAT;1', 'rr': 'boot.cat', 'jol': 'boot.cat', 'udf': 'boot.cat'}},
    'jol': {'level': 3, 'joliet': 3, 'rr': None, 'udf': None, 'mode': 'lazy',
            'cat': {'iso': 'CATALOG.BIN;1', 'rr': 'catalog.bin', 'jol': 'Boot Catalog', 'udf': 'catalog.bin'}},
    'rr': {'level': 1, 'joliet': None, 'rr': '1.09', 'udf': None, 'mode': 'lazy',
           'cat': {'iso': 'ZCAT.;1', 'rr': 'the.boot.catalog', 'jol': 'zcat', 'udf': 'zcat'}},
    'udf': {'level': 3, 'joliet': None, 'rr': None, 'udf': '2.60', 'mode': 'lazy',
            'cat': {'iso': 'BOOT.CAT;1', 'rr': 'boot.cat', 'jol': 'boot.cat', 'udf': 'udfboot.cat'}},
    'all': {'level': 3, 'joliet': 3, 'rr': '1.12', 'udf': '2.60', 'mode': 'lazy',
            'cat': {'iso': 'BOOT.CAT;1', 'rr': 'boot.cat', 'jol': 'boot.cat', 'udf': 'boot.cat'}},
    'jolrr': {'level': 2, 'joliet': 1, 'rr': '1.10', 'udf': None, 'mode': 'lazy',
              'cat': {'iso': 'ACAT.BIN;1', 'rr': 'acat.bin', 'jol': 'acat.bin', 'udf': 'acat.bin'}},
}
for _k in list(CFGS):
    CFGS[_k + '+ac'] = dict(CFGS[_k], mode='always')
MBR_IDS = {'none': None, 'small': 0x01234567, 'zero': 0, 'big': 0xfedcba98}
FLOPPY = {1: 1228800, 2: 1474560, 3: 2949120}

_blobs = {}


def _mbr(kind, seed):
    body = bytearray(realize.blob_bytes('mbr:' + seed, 1024))
    body[446:512] = b'\x00' * 66

    def part(slot, status, ptype):
        body[446 + 16 * slot:462 + 16 * slot] = struct.pack('<BBBBBBBBLL', status, 1, 1, 0, ptype, 15, 63, 4, 63, 5040)
    if kind in ('ok', 'nosig', 'two'):
        part(0, 0x80, 0x0c)
    if kind == 'two':
        part(2, 0, 0x83)
    if kind != 'nosig':
        body[510:512] = b'\x55\xaa'
    return bytes(body)


def blob(bid, info=None):
    """bytes of a model blob id; `info` is the model's BlobInfo record (len, sig, mbr, ptype)."""
    if bid in _blobs:
        return _blobs[bid]
    info = info or BLOBINFO[bid]
    n = info['len']
    if info['mbr'] in ('ok', 'nopart', 'two') or bid == 'mbrnosig':
        data = _mbr({'mbrnosig': 'nosig'}.get(bid, info['mbr']), bid)[:n]
    else:
        data = bytearray(realize.blob_bytes('boot:' + bid, n))
        if n >= 512:
            data[510:512] = b'\x00\x00'          # not an MBR
        if info['sig']:
            data[0x40:0x44] = b'\xfb\xc0\x78\x70'
        elif n >= 0x44:
            data[0x40:0x44] = b'\x00\x00\x00\x00'
        data = bytes(data)
    assert len(data) == n
    _blobs[bid] = data
    return data


# the model's blob table (MC_boot!BlobInfo), mirrored here and cross-checked against the `len`
# fields TLC prints with every expected state (see build_expect)
BLOBINFO = {
    's32': {'len': 32, 'sig': False, 'mbr': 'short'}, 's64': {'len': 64, 'sig': False, 'mbr': 'short'},
    'h2048': {'len': 2048, 'sig': True, 'mbr': 'nosig'}, 'h2049': {'len': 2049, 'sig': True, 'mbr': 'nosig'},
    'h4096': {'len': 4096, 'sig': True, 'mbr': 'nosig'}, 'e6000': {'len': 6000, 'sig': False, 'mbr': 'nosig'},
    'm100': {'len': 100, 'sig': False, 'mbr': 'short'}, 'x5000': {'len': 5000, 'sig': False, 'mbr': 'nosig'},
    'f12': {'len': 1228800, 'sig': False, 'mbr': 'nosig'}, 'f144': {'len': 1474560, 'sig': False, 'mbr': 'nosig'},
    'f288': {'len': 2949120, 'sig': False, 'mbr': 'nosig'},
    'b34m': {'len': 35651584, 'sig': False, 'mbr': 'nosig'}, 'b35m': {'len': 35672064, 'sig': False, 'mbr': 'nosig'},
    'mbrok': {'len': 1024, 'sig': False, 'mbr': 'ok'}, 'mbrnosig': {'len': 1024, 'sig': False, 'mbr': 'nosig'},
    'mbrnopart': {'len': 1024, 'sig': False, 'mbr': 'nopart'}, 'mbrtwo': {'len': 1024, 'sig': False, 'mbr': 'two'},
    'mbrshort': {'len': 100, 'sig': False, 'mbr': 'short'},
}


def sha(b):
    return hashlib.sha256(b).hexdigest()


def nobit(b):
    if len(b) <= 8:
        return b
    n = min(len(b), 64)
    return b[:8] + b'\x00' * (n - 8) + b[64:]


def csum32(b):
    rest = b[64:]
    if len(rest) % 4:
        rest += b'\x00' * (4 - len(rest) % 4)
    return '%08x' % (sum(struct.unpack('<%dL' % (len(rest) // 4), rest)) & 0xffffffff)


# ---------------------------------------------------------------------------------------------
# behaviours out of TLC
# ---------------------------------------------------------------------------------------------
MC_CFG = '''SPECIFICATION Spec
CONSTANTS
 Profile = "%(profile)s"
 MaxLen = %(maxlen)d
 MaxRefuse = %(maxrefuse)d
 MaxGen = %(maxgen)d
 Dump = "%(dump)s"
INVARIANT InvHybridNeedsEltorito
INVARIANT InvEntriesLive
INVARIANT InvPatchOnlyWithEltorito
INVARIANT InvShape
INVARIANT InvRmEltoritoInverse
INVARIANT InvLinkClass
ACTION_CONSTRAINT ActionProps
ACTION_CONSTRAINT %(dumper)s
VIEW View
CHECK_DEADLOCK FALSE
'''


def behaviours(profile, maxlen, maxrefuse=1, maxgen=1, simulate=None, depth=None, seed=0, timeout=900, every_step=False):
    """Exhaustive (every transition of the bounded graph, one history per transition) or simulated
    behaviours of MC_boot.  Returns (list of {h, exp}, stats)."""
    p = {'profile': profile, 'maxlen': maxlen, 'maxrefuse': maxrefuse, 'maxgen': maxgen,
         'dump': 'final' if simulate and not every_step else 'edges',
         'dumper': 'DumpFinal' if simulate and not every_step else 'DumpEdge'}
    extra = []
    if simulate:
        extra = ['-depth', str(depth or maxlen + 1), '-seed', str(seed + 1)]
    out, stats = tlc.run_tlc('MC_boot', MC_CFG % p, workers=1 if simulate else 8, timeout=timeout,
                             simulate=('num=%d' % simulate) if simulate else None, extra=extra)
    if simulate:
        import re
        m = re.search(r'The number of states generated: (\d+)', out)
        if stats.get('exit') != 0 or not m or stats['errors']:
            raise tlc.TlcError('MC_boot simulation failed\n' + '\n'.join(out.split('\n')[-30:]))
        stats['generated'] = int(m.group(1))
        stats['distinct'] = 0
    else:
        tlc.need_ok(out, stats, 'MC_boot/' + profile)
    seen = set()
    hs = []
    for tag, v in tlc.tagged_lines(out):
        if tag != 'HIST':
            continue
        key = json.dumps(v['h'], sort_keys=True)
        if key in seen:
            continue
        seen.add(key)
        hs.append(v)
    hs.sort(key=lambda v: json.dumps(v['h'], sort_keys=True))    # TLC's output order is not deterministic
    stats['profile'] = profile
    stats['behaviours'] = len(hs)
    return hs, stats


def oracle(scripts):
    """the model's verdict on given call sequences (lists of action records): [{h, exp}] in order"""
    import os
    import tempfile
    fd, path = tempfile.mkstemp(prefix='verif-boot-scripts-', suffix='.json')
    try:
        with os.fdopen(fd, 'w') as f:
            json.dump({'scripts': scripts}, f)
        cfg = MC_CFG % {'profile': 'script', 'maxlen': 0, 'maxrefuse': 0, 'maxgen': 0, 'dump': 'init',
                        'dumper': 'DumpEdge'} + 'CONSTRAINT DumpInit\n'
        out, stats = tlc.run_tlc('MC_boot', cfg, workers=1, timeout=600, env={'BOOT_SCRIPTS': path, 'JAVA_TOOL_OPTIONS': '-Xss512m'})
    finally:
        os.unlink(path)
    tlc.need_ok(out, stats, 'MC_boot/script')
    got = {}
    for tag, v in tlc.tagged_lines(out):
        if tag == 'HIST':
            got[json.dumps([x['act'] for x in v['h']], sort_keys=True)] = v
    return [got[json.dumps(sc, sort_keys=True)] for sc in scripts]


# ---------------------------------------------------------------------------------------------
# replay on the real library
# ---------------------------------------------------------------------------------------------
def _path(ns, n, cfg):
    names = cfg['cat'] if n == 'C' else NAMES[n]
    return '/' + names[ns]


def _nskw(cfg, n, rrkey='rr_name'):
    """keyword arguments naming `n` in every namespace the configuration has"""
    kw = {'iso_path': _path('iso', n, cfg)}
    if cfg['rr']:
        kw[rrkey] = (cfg['cat'] if n == 'C' else NAMES[n])['rr']
    if cfg['joliet']:
        kw['joliet_path'] = _path('jol', n, cfg)
    if cfg['udf']:
        kw['udf_path'] = _path('udf', n, cfg)
    return kw


class Replay(object):
    def __init__(self, cfg):
        import pycdlib
        self.pycdlib = pycdlib
        self.cfg = cfg
        det.reset()
        self.iso = pycdlib.PyCdlib(always_consistent=(cfg['mode'] == 'always'))
        self.iso.new(interchange_level=cfg['level'], joliet=cfg['joliet'], rock_ridge=cfg['rr'], udf=cfg['udf'])
        # files whose alias this driver has made and not removed again (bookkeeping of the calls made,
        # needed to spell out "every name" of RmHardLink/all; nothing is judged with it)
        self.aliased = set()

    def call(self, act):
        """'ok' | 'refuse' (PyCdlibInvalidInput) | 'error:<class>'"""
        try:
            getattr(self, 'do_' + act['a'])(act)
            return 'ok'
        except self.pycdlib.pycdlibexception.PyCdlibInvalidInput:
            return 'refuse'
        except Exception as e:  # pylint: disable=broad-except
            return 'error:%s:%s' % (type(e).__name__, str(e)[:80])

    def do_AddFile(self, a):
        data = blob(a['blob'])
        self.iso.add_fp(io.BytesIO(data), len(data), **_nskw(self.cfg, a['n']))

    def do_RmFile(self, a):
        self.iso.rm_file(iso_path=_path('iso', a['n'], self.cfg))
        self.aliased.discard(a['n'])

    def do_AddLink(self, a):
        kw = {'rr_name': ALIAS[a['n']]['rr']} if self.cfg['rr'] else {}
        self.iso.add_hard_link(iso_old_path=_path('iso', a['n'], self.cfg), iso_new_path='/' + ALIAS[a['n']]['iso'], **kw)
        self.aliased.add(a['n'])

    def do_RmLink(self, a):
        self.iso.rm_hard_link(iso_path='/' + ALIAS[a['n']]['iso'])
        self.aliased.discard(a['n'])

    def do_RmFileViaLink(self, a):
        self.iso.rm_file(iso_path='/' + ALIAS[a['n']]['iso'])
        self.aliased.discard(a['n'])

    def do_RmHardLink(self, a):
        self.iso.rm_hard_link(iso_path=_path('iso', a['n'], self.cfg))
        if a['scope'] == 'all':
            if a['n'] in self.aliased:
                self.iso.rm_hard_link(iso_path='/' + ALIAS[a['n']]['iso'])
                self.aliased.discard(a['n'])
            if self.cfg['joliet']:
                self.iso.rm_hard_link(joliet_path=_path('jol', a['n'], self.cfg))
            if self.cfg['udf']:
                self.iso.rm_hard_link(udf_path=_path('udf', a['n'], self.cfg))

    def do_AddDir(self, a):
        self.iso.add_directory(**_nskw(self.cfg, a['d']))

    def do_RmDir(self, a):
        self.iso.rm_directory(**_nskw(self.cfg, a['d']))

    def do_AddEltorito(self, a):
        s = a['spec']
        cfg = self.cfg
        kw = {'bootcatfile': _path('iso', 'C', cfg), 'platform_id': s['platform'], 'boot_info_table': s['bit'],
              'efi': s['efi'], 'media_name': s['media'], 'bootable': s['bootable'], 'boot_load_seg': s['seg']}
        if s['load']:
            kw['boot_load_size'] = s['load']
        if cfg['rr']:
            kw['rr_bootcatname'] = cfg['cat']['rr']
        if cfg['joliet']:
            kw['joliet_bootcatfile'] = _path('jol', 'C', cfg)
        if cfg['udf']:
            kw['udf_bootcatfile'] = _path('udf', 'C', cfg)
        self.iso.add_eltorito(_path('iso', a['f'], cfg), **kw)

    def do_RmEltorito(self, a):
        self.iso.rm_eltorito()

    def do_AddIsohybrid(self, a):
        s = a['spec']
        kw = {'part_entry': s['entry'], 'mbr_id': MBR_IDS[s['idk']], 'part_offset': s['offset'],
              'geometry_sectors': s['sectors'], 'geometry_heads': s['heads'], 'mac': s['mac']}
        if s['ptype'] != 999:
            kw['part_type'] = s['ptype']
        if s['efi'] != 'none':
            kw['efi'] = s['efi'] == 'yes'
        self.iso.add_isohybrid(**kw)

    def do_RmIsohybrid(self, a):
        self.iso.rm_isohybrid()

    def do_ForceConsistency(self, a):
        self.iso.force_consistency()

    def do_Reopen(self, a):
        out = io.BytesIO()
        self.iso.write_fp(out)
        always = self.cfg['mode'] == 'always'
        self.iso.close()
        self.iso = self.pycdlib.PyCdlib(always_consistent=always)
        self.iso.open_fp(io.BytesIO(out.getvalue()))

    def master(self):
        out = io.BytesIO()
        try:
            self.iso.write_fp(out)
        except Exception as e:  # pylint: disable=broad-except
            return 'error:%s:%s' % (type(e).__name__, str(e)[:80]), None
        return 'ok', out.getvalue()

    def read(self, iso, **kw):
        out = io.BytesIO()
        try:
            iso.get_file_from_iso_fp(out, **kw)
        except Exception as e:  # pylint: disable=broad-except
            return None, '%s:%s' % (type(e).__name__, str(e)[:60])
        return out.getvalue(), ''


def ns_paths(cfg, n, vis, alias=False):
    """[(ns, get_file keyword, path)] under which content named n with visibility vis (and a second
    ISO9660 name if alias) is reachable"""
    out = []
    if vis == 'all':
        out.append(('iso', 'iso_path', _path('iso', n, cfg)))
        if cfg['rr']:
            out.append(('rr', 'rr_path', '/' + (cfg['cat'] if n == 'C' else NAMES[n])['rr']))
    if alias and vis != 'none':
        out.append(('iso', 'iso_path', '/' + ALIAS[n]['iso']))
        if cfg['rr']:
            out.append(('rr', 'rr_path', '/' + ALIAS[n]['rr']))
    if vis in ('all', 'sec'):
        if cfg['joliet']:
            out.append(('jol', 'joliet_path', _path('jol', n, cfg)))
        if cfg['udf']:
            out.append(('udf', 'udf_path', _path('udf', n, cfg)))
    return out


def readback(rp, iso, src, exp):
    cfg = rp.cfg
    cat = []
    boot = []
    if exp['boot']:
        for (ns, key, path) in ns_paths(cfg, 'C', 'all'):
            data, err = rp.read(iso, **{key: path})
            cat.append({'src': src, 'ns': ns, 'path': path, 'ok': data is not None, 'err': err,
                        'len': len(data or b''), 'sha': sha(data or b'')})
        for k, e in enumerate(exp['entries']):
            for (ns, key, path) in ns_paths(cfg, e['name'], e['vis'], e.get('alias', False)):
                data, err = rp.read(iso, **{key: path})
                r = {'src': src, 'k': k + 1, 'ns': ns, 'path': path, 'ok': data is not None, 'err': err}
                r.update(dec_elt.bit_fields(data or b''))
                boot.append(r)
    return cat, boot


def build_expect(exp, cfg):
    """the model's expected abstract state with ids realised for configuration cfg"""
    def names(n, vis, alias=False):
        return [{'ns': ns, 'path': p} for (ns, _, p) in ns_paths(cfg, n, vis, alias) if ns in ('iso', 'jol')]
    entries = []
    for e in exp['entries']:
        b = blob(e['blob'])
        assert len(b) == e['len'], 'blob table of the harness differs from the model'
        entries.append({'media': e['media'], 'count': e['count'], 'ind': e['ind'], 'plat': e['plat'],
                        'systype': e['systype'], 'seg': e['seg'], 'patched': e['patched'], 'loose': e['loose'], 'len': e['len'],
                        'names': names(e['name'], e['vis'], e.get('alias', False)), 'sha_file': sha(b), 'sha_file_nobit': sha(nobit(b)),
                        'csum_hex': csum32(b),
                        'media_sha': sha(b) if e['media'] in FLOPPY and FLOPPY[e['media']] == len(b) and not e['loose'] else ''})
    files = []
    for f in exp['files']:
        b = blob(f['blob'])
        assert len(b) == f['len'], 'blob table of the harness differs from the model'
        for nm in names(f['name'], f['vis'], f.get('alias', False)):
            files.append({'ns': nm['ns'], 'path': nm['path'], 'len': f['len'], 'sha': sha(b),
                          'sha_nobit': sha(nobit(b)), 'patched': f['patched'], 'loose': f['loose']})
    hyb = dict(exp['hyb'])
    hyb['idgiven'] = hyb['idk'] != 'none'
    hyb['id_hex'] = '%08x' % (MBR_IDS[hyb['idk']] or 0)
    catn = [{'ns': ns, 'path': p if ns != 'rr' else p[1:]} for (ns, _, p) in ns_paths(cfg, 'C', 'all') if ns != 'udf']
    return {'div': [], 'master': 'ok', 'boot': exp['boot'], 'platform': exp['platform'], 'entries': entries,
            'catnames': catn if exp['boot'] else [], 'catpaths': [c for c in catn if c['ns'] != 'rr'],
            'files': files, 'hyb': hyb}


EMPTY_ELT = dec_elt.decode(b'')
EMPTY_HYB = dec_hyb.decode(b'')


def trim_elt(r):
    r = dict(r)
    r.pop('vds', None)
    r.pop('initial', None)
    r['files'] = [{k: f[k] for k in ('ns', 'path', 'size', 'complete', 'sha', 'sha_nobit')} for f in r['files']]
    ents = []
    for e in r['entries']:
        e = dict(e)
        for k in ('head_hex', 'sha_count', 'sha_count_nobit', 'sha_sectors', 'rba_hex'):
            e.pop(k, None)
        ents.append(e)
    r['entries'] = ents
    return r


def diff_kinds(d1, d0):
    """region kinds in which the hybrid image d1 differs from the baseline d0 (same history, no
    add_isohybrid); also returns the first differing sector per kind"""
    kinds = {}
    if len(d1) < len(d0):
        kinds['truncated'] = len(d1) // 2048
    n0 = len(d0)
    if d1[:32768] != d0[:32768]:
        kinds['system_area'] = 0
    if d1[32768:n0] != d0[32768:]:
        for s in range(16, n0 // 2048):
            if d1[s * 2048:(s + 1) * 2048] != d0[s * 2048:(s + 1) * 2048]:
                kinds['iso_body'] = s
                break
    if len(d1) > n0:
        kinds['tail_padding'] = n0 // 2048
    return kinds


def run_history(hist, cfgname, want_hybrid=False, keep_image=False):
    """Replay one behaviour in one configuration.  Returns a dict:
       kind: 'item' (observation to judge) | 'dead' (behaviour ends in a refusal that pycdlib
       raises after mutating - C14's subject - nothing to judge)"""
    cfg = CFGS[cfgname]
    rp = Replay(cfg)
    h = hist['h']
    exp = hist['exp']
    expect = build_expect(exp, cfg)
    res = {'kind': 'item', 'cfg': cfgname, 'image': None, 'write_after_taint': None}
    for k, step in enumerate(h):
        got = rp.call(step['act'])
        if got != step['out']:
            expect['div'] = [{'k': k + 1, 'act': step['act']['a'], 'why': step['why'], 'want': step['out'], 'got': got}]
            break
        if step['taint']:
            res['kind'] = 'dead'
            res['write_after_taint'] = rp.master()[0]
            return res
    item = {'elt': trim_elt(EMPTY_ELT), 'hyb': EMPTY_HYB, 'rb': {'cat': [], 'boot': [], 'open_ok': True}, 'diffkinds': [],
            'expect': expect}
    res['item'] = item
    if expect['div']:
        return res
    status, data = rp.master()
    expect['master'] = status
    if data is None:
        return res
    # read back through the live object once it has been mastered (before that, lazily maintained
    # metadata may be stale: that is C06's subject, not C11's)
    cat_l, boot_l = readback(rp, rp.iso, 'live', exp)
    item['elt'] = trim_elt(dec_elt.decode(data, [e['len'] for e in expect['entries']]))
    item['hyb'] = dec_hyb.decode(data)
    if keep_image:
        res['image'] = data
    pyc = rp.pycdlib
    fresh = pyc.PyCdlib()
    try:
        fresh.open_fp(io.BytesIO(data))
        cat_o, boot_o = readback(rp, fresh, 'open', exp)
        fresh.close()
    except Exception as e:  # pylint: disable=broad-except
        cat_o = []
        boot_o = []
        item['open_error'] = '%s:%s' % (type(e).__name__, str(e)[:80])
    item['rb'] = {'cat': cat_l + cat_o, 'boot': boot_l + boot_o, 'open_ok': 'open_error' not in item}
    if want_hybrid and exp['hyb']['on']:
        # differential run: the same history without add_isohybrid / rm_isohybrid
        rp0 = Replay(cfg)
        ok = True
        for step in h:
            if step['act']['a'] in ('AddIsohybrid', 'RmIsohybrid'):
                continue
            if step['out'] == 'refuse' and step['why'] == 'hybrid_present':
                # refused only because of the hybridisation: the call changed nothing, and without
                # the hybridisation it would not be refused - it is not part of the baseline
                continue
            if rp0.call(step['act']) != step['out']:
                ok = False
                break
        st0, d0 = rp0.master() if ok else ('baseline diverged', None)
        if d0 is None:
            item['diffkinds'] = ['baseline_failed']
            item['diffwhere'] = {'baseline_failed': st0}
        else:
            kinds = diff_kinds(data, d0)
            item['diffkinds'] = sorted(kinds)
            item['diffwhere'] = kinds
            cyl = exp['hyb']['heads'] * exp['hyb']['sectors'] * 512
            item['pad0'] = (-len(d0)) % cyl          # room between the end of the ISO and the cylinder boundary
            item['cyl0'] = (len(d0) + item['pad0']) // cyl
    return res


def _task(args):
    hist, cfgname, want_hybrid = args
    try:
        r = run_history(hist, cfgname, want_hybrid)
    except Exception as e:  # pylint: disable=broad-except
        import traceback
        return {'kind': 'crash', 'cfg': cfgname, 'err': traceback.format_exc()[-1500:]}
    return r


def run_all(tasks, procs=16):
    """replay in a process pool; tasks are dealt out in a fixed shuffled order so that the slow ones
    (diskette images, long histories) do not end up in one worker's chunk"""
    order = list(range(len(tasks)))
    random.Random(12345).shuffle(order)
    ctx = multiprocessing.get_context('fork')
    with ctx.Pool(procs) as pool:
        res = pool.map(_task, [tasks[k] for k in order], chunksize=4)
    out = [None] * len(tasks)
    for k, r in zip(order, res):
        out[k] = r
    return out


# ---------------------------------------------------------------------------------------------
# circumstances (model terms) that discriminate known findings
# ---------------------------------------------------------------------------------------------
def facts(hist, cfgname, upto=None):
    """facts about a behaviour, in model terms, used to describe a failing observation (the
    discriminating circumstance of a known finding).  Recomputed from the accepted calls (the first
    `upto` calls when the replay stopped early); classification only - TLC decides what fails."""
    steps = hist['h'] if upto is None else hist['h'][:upto]
    acts = [s['act'] for s in steps if s['out'] == 'ok']
    f = set()
    files = {}         # name -> link class {'blob', 'vis' (of the original names), 'alias'}
    ents = []          # entries of the current catalog; e['file'] is the link class it was made for
    hyb = None
    bit_seen = False
    last_edit = None
    secondary = bool(CFGS[cfgname]['joliet'] or CFGS[cfgname]['udf'])
    reopened = False
    udf_rm_after_reopen = False
    stale_bit = False  # a boot info table that the last open_fp did not recognise (see Reopen below)

    def gone(name):
        fl = files.pop(name, None)
        if fl is not None:
            fl['vis'] = 'none'
            fl['alias'] = False

    def vis(e):
        """what is left of the boot file's names in this configuration: 'all' = an ISO9660 name (the
        original one or the alias), 'sec' = Joliet/UDF names only, 'none' = no name at all"""
        fl = e['file']
        if fl['vis'] == 'all' or fl['alias']:
            return 'all'
        return 'sec' if (fl['vis'] == 'sec' and secondary) else 'none'

    def place_name(e):
        """the name that decides when pycdlib places this boot file: its first ISO9660 name"""
        fl = e['file']
        nm = ([NAMES[e['name']]['iso']] if fl['vis'] == 'all' else []) + ([ALIAS[e['name']]['iso']] if fl['alias'] else [])
        return min(nm) if nm else 'AAAAAAAA.;1'

    for a in acts:
        n = a['a']
        if n == 'Reopen':
            reopened = True
        if n in ('RmFile', 'RmFileViaLink', 'RmHardLink', 'RmEltorito') and reopened and CFGS[cfgname]['udf']:
            udf_rm_after_reopen = True
        if n == 'AddFile':
            files[a['n']] = {'blob': a['blob'], 'vis': 'all', 'alias': False, 'bit': False}
        elif n == 'AddLink':
            files[a['n']]['alias'] = True
        elif n == 'RmLink':
            files[a['n']]['alias'] = False
        elif n == 'AddEltorito':
            sp = a['spec']
            if ents and not sp['bootable']:
                f.add('nonbootable_section_entry')
            ln = BLOBINFO[files[a['f']]['blob']]['len']
            cnt = (sp['load'] or ((ln + 2047) // 2048) * 4) if sp['media'] == 'noemul' else 1
            plat = sp['platform'] if not ents else (239 if sp['efi'] else ents[0]['vplat'])
            ents.append({'name': a['f'], 'file': files[a['f']], 'plat': plat,
                         'vplat': sp['platform'] if not ents else ents[0]['vplat'], 'count': cnt})
            bit_seen = bit_seen or sp['bit']
            files[a['f']]['bit'] = files[a['f']]['bit'] or sp['bit']
        elif n == 'RmHardLink':
            if a['scope'] == 'all':
                gone(a['n'])
            else:
                files[a['n']]['vis'] = 'sec'
        elif n in ('RmFile', 'RmFileViaLink'):
            gone(a['n'])
        elif n == 'RmEltorito':
            if any(vis(e) == 'none' for e in ents):
                f.add('after_rm_eltorito_with_unlinked_boot_file')
            if bit_seen:
                f.add('rm_eltorito_after_boot_info_table')
            ents = []
            f.discard('nonbootable_section_entry')        # a fact of the catalog that is gone
            stale_bit = False
        elif n == 'Reopen':
            if any(vis(e) == 'none' for e in ents):
                f.add('unlinked_boot_file_reopened')
            if any(vis(e) == 'sec' for e in ents):
                f.add('boot_file_without_iso_name_reopened')
            # open_fp looks for the boot info table before the Joliet/UDF walk has told it the exact length
            # of a boot file without ISO9660 name: unless that is the load size, the table is not recognised
            if any(vis(e) == 'sec' and e['file']['bit'] and BLOBINFO[e['file']['blob']]['len'] != e['count'] * 512 for e in ents):
                stale_bit = True
            if len(ents) == 32:
                f.add('catalog_full')
            if hyb is not None:
                f.add('hybrid_reopened')
                if (hyb['efi'] == 'yes' or (hyb['efi'] == 'none' and hyb['mac'])) and hyb['sectors'] * hyb['heads'] < 33:
                    # the image written for this reopen had its tail overwritten by the backup GPT
                    # (open finding C12-backup-gpt-overwrites-iso-tail): what the object holds from
                    # here on is that damaged image
                    f.add('reopened_image_had_lost_its_tail')
                # (open_fp used to guess the geometry from the partition size - the fact
                # 'hybrid_reopened_geometry_misread' - and reads it from the partition entry now)
        if n == 'AddIsohybrid':
            hyb = a['spec']
            f.discard('isohybrid_on_consistent_object')
            if last_edit in ('ForceConsistency', 'Reopen', None) or CFGS[cfgname]['mode'] == 'always':
                f.add('isohybrid_on_consistent_object')
        elif n == 'RmIsohybrid':
            hyb = None
            f.discard('isohybrid_on_consistent_object')
        elif n in ('ForceConsistency', 'Reopen'):
            last_edit = n
        else:
            last_edit = 'edit'
            f.discard('isohybrid_on_consistent_object')     # the edit marks the metadata stale
            if stale_bit and n != 'RmEltorito':
                f.add('boot_info_table_without_iso_name_edited_after_reopen')
    if len(ents) == 32:
        f.add('catalog_full')          # validation + initial + 31 x (header + entry) = 64 slots = the whole sector
    if any(e['file']['alias'] for e in ents):
        f.add('boot_file_has_alias')           # a boot image with two ISO9660 names (hard link)
    if any(vis(e) == 'sec' for e in ents):
        f.add('boot_file_without_iso_name')
    if any(vis(e) == 'none' for e in ents):
        f.add('unlinked_boot_file')
    if udf_rm_after_reopen:
        f.add('udf_name_removed_after_reopen')
    if CFGS[cfgname]['mode'] == 'always':
        f.add('always_consistent')
        if hyb is not None:
            f.add('isohybrid_on_consistent_object')
    if hyb is not None:
        efi = hyb['efi'] == 'yes' or (hyb['efi'] == 'none' and hyb['mac'])
        if efi:
            f.add('efi')
            if hyb['sectors'] * hyb['heads'] < 33:
                f.add('efi_cylinder_smaller_than_backup_gpt')     # the padding can never hold the backup GPT
        if hyb['mac']:
            f.add('mac')
        if (efi and hyb['entry'] == 2) or (hyb['mac'] and hyb['entry'] in (2, 3)):
            f.add('part_entry_collides_with_efi_or_mac_slot')
        efis = [k for k in range(1, len(ents)) if ents[k]['plat'] == 239]
        if not efi and efis:
            f.add('bios_hybrid_with_efi_section')
        if len(efis) > (2 if hyb['mac'] else 1 if efi else 0):
            f.add('more_efi_sections_than_used')
        if any(ents[k]['file'] is ents[j]['file'] for k in efis[:2] for j in range(k)):
            f.add('efi_section_shares_file_with_earlier_entry')
        if len(efis) >= 2:
            order = sorted(efis, key=lambda k: place_name(ents[k]))
            if order != efis:
                f.add('efi_sections_name_order_differs_from_catalog_order')
        if efis and ents[efis[0]]['count'] != ents[-1]['count']:
            f.add('efi_section_size_differs_from_last_section')
        if len(efis) >= 2 and ents[efis[1]]['count'] != ents[-1]['count']:
            f.add('mac_section_size_differs_from_last_section')
        if len([e for e in ents if e['plat'] == 0]) > 1:
            f.add('several_platform0_entries')
        if not ents:
            f.add('hybrid_without_eltorito')
    return f


def link_coverage(hists):
    """measured: how the behaviours replayed exercise second ISO9660 names of boot files - per role of
    the entry (bios = initial entry, efi/mac = the sections a hybrid uses, section = any other) whether
    the link was made before/after the add_eltorito of that file and before/after add_isohybrid"""
    cov = {}
    nlink = 0
    for hh in hists:
        oks = [s['act'] for s in hh['h'] if s['out'] == 'ok']
        if any(a['a'] in ('AddLink', 'RmLink', 'RmFileViaLink') for a in oks):
            nlink += 1
        hyb = hh['exp']['hyb']
        t_hyb = max([k for k, a in enumerate(oks) if a['a'] == 'AddIsohybrid'] or [-1])
        for k, e in enumerate(hh['exp']['entries']):
            if not e.get('alias'):
                continue
            role = 'bios' if k == 0 else 'efi' if (hyb['on'] and hyb['efi'] and k + 1 == hyb['efik']) else \
                'mac' if (hyb['on'] and hyb['mac'] and k + 1 == hyb['mack']) else 'section'
            t_link = max(j for j, a in enumerate(oks) if a['a'] == 'AddLink' and a['n'] == e['name'])
            t_elt = min(j for j, a in enumerate(oks) if a['a'] == 'AddEltorito' and a['f'] == e['name'])
            keys = ['%s:link_%s_add_eltorito' % (role, 'before' if t_link < t_elt else 'after')]
            if hyb['on']:
                keys.append('%s:link_%s_add_isohybrid' % (role, 'before' if t_link < t_hyb else 'after'))
            if e['vis'] != 'all':
                keys.append('%s:alias_is_the_only_iso9660_name' % role)
            for key in keys:
                cov[key] = cov.get(key, 0) + 1
    return {'behaviours_with_link_actions': nlink, 'aliased_boot_entries': dict(sorted(cov.items()))}


def finish_tlc(ctx, stats_list):
    ctx.coverage['states'] = sum(s.get('distinct', 0) for s in stats_list)
    ctx.coverage['transitions'] = sum(s.get('generated', 0) for s in stats_list)
    ctx.coverage['tlc_runs'] = [{k: s.get(k) for k in ('profile', 'generated', 'distinct', 'depth', 'behaviours', 'wall_s')}
                                for s in stats_list]


def hist_brief(hist):
    out = []
    for s in hist['h']:
        a = dict(s['act'])
        name = a.pop('a')
        out.append('%s%s%s' % (name, json.dumps(a, sort_keys=True) if a else '',
                               '' if s['out'] == 'ok' else ' -> refused(%s)' % s['why']))
    return out


def _judge_batch(args):
    module, part = args
    return judge.judge(module, part, 1800, None, '1g')


def judge_items(module, items, batch=500, procs=4):
    """TLC judges; identical observations are judged once.  JudgeLoop re-reads the observation file
    (measured: a few JVMs with hundreds of observations each are much faster than many small ones)."""
    uniq = {}
    ids = {}
    for it in items:
        body = {k: it[k] for k in ('elt', 'hyb', 'rb', 'diffkinds', 'expect')}
        key = hashlib.sha256(json.dumps(body, sort_keys=True).encode()).hexdigest()
        if key not in uniq:
            uniq[key] = dict(body, id=key[:16])
        ids[it['id']] = key[:16]
    todo = list(uniq.values())
    parts = [todo[k:k + batch] for k in range(0, len(todo), batch)]
    fails = {}
    stats = []
    if parts:
        ctx = multiprocessing.get_context('fork')
        with ctx.Pool(min(procs, len(parts))) as pool:
            for f, st in pool.imap_unordered(_judge_batch, [(module, p) for p in parts]):
                fails.update(f)
                stats.append(st)
    return {iid: fails[u] for iid, u in ids.items() if u in fails}, len(uniq), stats


def shrink(hist, cfgname, module, clause, want_hybrid=False, rounds=40, circ_fn=None, circ=None):
    """greedy one-step-removal shrinking of a failing behaviour; the model (TLC) recomputes the
    expected outcomes of every candidate, the real library is replayed and TLC judges again."""
    acts = [s['act'] for s in hist['h']]
    best = hist
    for _ in range(rounds):
        cands = [acts[:k] + acts[k + 1:] for k in range(len(acts))]
        cands = [c for c in cands if c]
        if not cands:
            break
        hs = oracle(cands)
        items = []
        for n, hh in enumerate(hs):
            if any(st['taint'] for st in hh['h']):
                continue
            r = run_history(hh, cfgname, want_hybrid)
            if r['kind'] == 'item':
                r['item']['id'] = 's%d' % n
                items.append(r['item'])
        fails, _, _ = judge_items(module, items)
        byid = dict((it['id'], it) for it in items)
        good = [int(i[1:]) for i, cl in fails.items() if clause in cl and
                (circ_fn is None or circ_fn(clause, hs[int(i[1:])], cfgname, byid[i]) == circ)]
        if not good:
            break
        k = min(good, key=lambda n: len(fails['s%d' % n]))
        best = hs[k]
        acts = cands[k]
    return best


# ---------------------------------------------------------------------------------------------
# C11
# ---------------------------------------------------------------------------------------------
def c11_circumstance(clause, hist, cfgname, item):
    """the known-defect trigger (a fact of the behaviour, in model terms) that can explain a failing
    clause; 'none' if there is none.  Classification only: TLC has already decided that it fails."""
    div = item['expect']['div']
    fs = facts(hist, cfgname, div[0]['k'] - 1 if div else None)
    if clause == 'ApiOutcomeAsModelled':
        d = div[0]
        if d['act'] == 'Reopen' and 'Invalid El Torito Boot Catalog entry' in d['got'] and 'catalog_full' in fs:
            return 'catalog_full'
        if d['act'] == 'Reopen' and 'nonbootable_section_entry' in fs:
            return 'nonbootable_section_entry'
        if d['act'] == 'Reopen' and 'UDF Anchors' in d['got'] and 'udf_name_removed_after_reopen' in fs:
            return 'udf_name_removed_after_reopen'
        if d['act'] == 'Reopen' and 'UDF Anchors' in d['got']:
            for x in ('unlinked_boot_file_reopened', 'boot_file_without_iso_name_reopened'):
                if x in fs:
                    return x
        if 'after_rm_eltorito_with_unlinked_boot_file' in fs:
            return 'after_rm_eltorito_with_unlinked_boot_file'
        return '%s/%s:%s->%s' % (d['act'], d['why'] or 'accepted', d['want'], ':'.join(d['got'].split(':')[:2]))
    if clause == 'ReadBackPossible' and 'UDF Anchors' in item.get('open_error', '') and 'udf_name_removed_after_reopen' in fs:
        return 'udf_name_removed_after_reopen'                   # not El Torito's: UDF space accounting
    if clause == 'ReadBackPossible' and 'nonbootable_section_entry' in fs and \
            'El Torito section header specified' in item.get('open_error', ''):
        return 'nonbootable_section_entry'                       # the parser's own message for that defect
    if clause in ('BootInfoTable.stored', 'BootInfoTable.read.live.jol', 'BootInfoTable.read.open.jol', 'BootInfoTable.read.open.udf') \
            and 'boot_info_table_without_iso_name_edited_after_reopen' in fs:
        return 'boot_info_table_without_iso_name_edited_after_reopen'
    if clause in ('CatalogReachableAsFile.read.live.udf', 'CatalogReachableAsFile.read.open.udf', 'BootInfoTable.read.live.udf'):
        return 'udf_name'                                        # fail on every UDF image, whatever the history
    if 'after_rm_eltorito_with_unlinked_boot_file' in fs:
        return 'after_rm_eltorito_with_unlinked_boot_file'      # the object is corrupt from there on
    if clause == 'Mastered':
        return ':'.join(item['expect']['master'].split(':')[:2])
    if clause == 'ReadBackPossible' and 'Invalid El Torito Boot Catalog entry' in item.get('open_error', '') and 'catalog_full' in fs:
        return 'catalog_full'
    if clause == 'ReadBackPossible' and 'nonbootable_section_entry' in fs:
        return 'nonbootable_section_entry'
    if clause == 'ReadBackPossible' and 'UDF Anchors' in item.get('open_error', ''):
        # the truncated boot file occupies fewer sectors than the volume size accounts for
        for x in ('unlinked_boot_file_reopened', 'boot_file_without_iso_name_reopened'):
            if x in fs:
                return x
    rm_bit = ('FilesAsExpected', 'LoadRbaIsWhereBootBytesStart', 'ReadBackUnpatched', 'BootInfoTable')
    reopened = ('FilesAsExpected', 'LoadRbaIsWhereBootBytesStart', 'BootInfoTable', 'ReadBackUnpatched')
    base = clause.split('.')[0]
    if base in reopened and 'unlinked_boot_file_reopened' in fs:
        return 'unlinked_boot_file_reopened'
    if base in reopened and 'boot_file_without_iso_name_reopened' in fs:
        return 'boot_file_without_iso_name_reopened'
    if base in ('ReadBackUnpatched', 'BootInfoTable') and '.open.' in clause and 'boot_file_without_iso_name' in fs \
            and clause.split('.')[-1] in ('jol', 'udf'):
        return 'boot_file_without_iso_name'
    if base in rm_bit and 'rm_eltorito_after_boot_info_table' in fs:
        return 'rm_eltorito_after_boot_info_table'
    if clause.endswith('.udf'):
        return 'udf_name'
    return 'none'


def replay_file(ctx, module, want_hybrid, circumstance):
    """--replay PATH: re-run one saved behaviour (the model recomputes what it expects)"""
    with open(ctx.replay) as f:
        doc = json.load(f)
    rep = doc.get('replay', doc)
    hist = oracle([[s['act'] for s in rep['hist']['h']]])[0]
    r = run_history(hist, rep['cfg'], want_hybrid)
    ctx.coverage.update({'states': len(hist['h']) + 1, 'transitions': len(hist['h']), 'traces_validated_against_impl': 1})
    ctx.sample({'history': hist_brief(hist), 'cfg': rep['cfg']})
    if r['kind'] != 'item':
        print('behaviour ends in a refusal that mutates (C14); nothing to judge')
        return
    it = r['item']
    it['id'] = 'replay'
    fails, _, _ = judge_items(module, [it])
    print('replay %s in %s: failing clauses %s' % (hist_brief(hist), rep['cfg'], fails.get('replay', [])))
    for cl in fails.get('replay', []):
        ctx.violation({'clause': cl, 'circumstance': circumstance(cl, hist, rep['cfg'], it)},
                      {'history': hist_brief(hist), 'cfg': rep['cfg'], 'failing': fails['replay']},
                      {'hist': hist, 'cfg': rep['cfg'], 'expect': it['expect']})


def run(ctx):
    if getattr(ctx, 'replay', None):
        return replay_file(ctx, 'Judge_C11', False, c11_circumstance)
    quick = ctx.tier == 'quick'
    rnd = random.Random(ctx.seed)
    plan = []     # (profile, maxlen, maxrefuse, maxgen, simulate, depth, cfgs, cap)
    base_cfgs = ['plain', 'jol', 'rr', 'udf', 'all']
    if quick:
        plan += [('c11q', 4, 1, 1, None, None, base_cfgs, 2200),
                 ('c11m', 2, 1, 0, None, None, ['plain', 'all'], 150),
                 ('c11p', 3, 0, 2, None, None, ['plain', 'all'], 400),
                 ('c11s', 9, 2, 2, 40, 10, base_cfgs + ['jolrr'], 350),
                 ('c11n', 80, 2, 1, 1, 81, ['plain', 'all'], 70)]
    else:
        plan += [('c11q', 5, 1, 1, None, None, base_cfgs + ['jolrr'], 3000),
                 ('c11m', 3, 1, 1, None, None, ['plain', 'all'], 1200),
                 ('c11p', 4, 1, 2, None, None, base_cfgs, 2000),
                 ('c11f', 3, 0, 1, None, None, ['plain', 'all'], 200),
                 ('c11t', 12, 2, 2, 300, 13, base_cfgs + ['jolrr'], 1200),
                 ('c11n', 90, 2, 1, 5, 91, ['plain', 'udf', 'all'], 400)]
    stats_list = []
    tasks = []
    hists = []
    for (profile, maxlen, maxref, maxgen, sim, depth, cfgs, cap) in plan:
        # c11n (1..32 entries): every step of the simulated walks is a behaviour of its own
        hs, st = behaviours(profile, maxlen, maxref, maxgen, simulate=sim, depth=depth, seed=ctx.seed,
                            every_step=(profile == 'c11n'))
        stats_list.append(st)
        print('MC_boot %s: %s states generated, %s distinct, %d behaviours (%.1fs)' % (
            profile, st.get('generated'), st.get('distinct'), len(hs), st['wall_s']), flush=True)
        if profile == 'c11n' and len(hs) > cap:
            # stratified by number of entries, so that 1..32 entries and the refused 33rd are all kept
            groups = {}
            for hh in hs:
                key = (len(hh['exp']['entries']), any(st['why'] == 'too_many' for st in hh['h']))
                groups.setdefault(key, []).append(hh)
            per = max(1, cap // max(1, len(groups)))
            hs = [hh for key in sorted(groups) for hh in rnd.sample(groups[key], min(per, len(groups[key])))]
        elif len(hs) > cap:
            # stratified: the behaviours with second-name actions first (all of them if they fit in half
            # the budget), the rest of the budget for the others
            link = [hh for hh in hs if any(st['act']['a'] in ('AddLink', 'RmLink', 'RmFileViaLink') for st in hh['h'])]
            rest = [hh for hh in hs if not any(st['act']['a'] in ('AddLink', 'RmLink', 'RmFileViaLink') for st in hh['h'])]
            n_link = min(len(link), max(cap // 2, cap - len(rest)))
            hs = rnd.sample(link, n_link) + rnd.sample(rest, min(len(rest), cap - n_link))
        for hh in hs:
            hists.append(hh)
            for c in cfgs:
                tasks.append((len(hists) - 1, c))
    # two scripted behaviours the model answers as an oracle: a full catalog (32 entries) and the 33rd call
    plain = {"media": "noemul", "load": 0, "bootable": True, "bit": False, "efi": False, "platform": 0, "seg": 0}
    sec = dict(plain, efi=True, bit=True)
    full = [{"a": "AddFile", "n": "I", "blob": "h2049"}, {"a": "AddEltorito", "f": "I", "spec": plain}] + \
           [{"a": "AddEltorito", "f": "I", "spec": sec if k % 2 else plain} for k in range(31)]
    for hh in oracle([full, full + [{"a": "AddEltorito", "f": "I", "spec": plain}]]):
        hists.append(hh)
        for c in ('plain', 'all'):
            tasks.append((len(hists) - 1, c))
    finish_tlc(ctx, stats_list)
    t0 = det.real_time()
    results = run_all([(hists[i], c, False) for (i, c) in tasks])
    print('replayed %d (behaviour, configuration) pairs in %.1fs' % (len(tasks), det.real_time() - t0), flush=True)
    items = []
    meta = {}
    for (i, c), r in zip(tasks, results):
        if r['kind'] == 'crash':
            raise RuntimeError('harness crash in %s: %s' % (c, r['err']))
        if r['kind'] == 'dead':
            ctx.note('behaviours_ending_in_mutating_refusal(C14)')
            if r['write_after_taint'] != 'ok':
                ctx.note('write_fails_after_refused_call(C14:S7)')
            continue
        it = r['item']
        it['id'] = 'h%d/%s' % (i, c)
        items.append(it)
        meta[it['id']] = (i, c)
    t0 = det.real_time()
    fails, nuniq, jstats = judge_items('Judge_C11', items)
    print('TLC judged %d observations (%d distinct) in %.1fs; %d with failing clauses' % (
        len(items), nuniq, det.real_time() - t0, len(fails)), flush=True)
    by_id = dict((it['id'], it) for it in items)
    for iid, clauses in sorted(fails.items()):
        i, c = meta[iid]
        for cl in clauses:
            sig = {'clause': cl, 'circumstance': c11_circumstance(cl, hists[i], c, by_id[iid])}
            ctx.violation(sig, {'history': hist_brief(hists[i]), 'cfg': c, 'failing': clauses},
                          {'hist': hists[i], 'cfg': c, 'expect': by_id[iid]['expect']})
            ctx.note('failing:' + cl)
    boot = sum(1 for it in items if it['expect']['boot'])
    ctx.coverage.update({
        'traces_validated_against_impl': len(items),
        'evaluations': len(items), 'distinct_nontrivial': nuniq,
        'rule': 'behaviours of MC_boot (every transition of the bounded graphs c11q/c11m once - c11q includes second ISO9660 '
                'names by add_hard_link -, plus simulated '
                'behaviours c11s/c11t/c11n seeded by --seed) x namespace configurations; distinct = distinct '
                '(decoded image report, read-back, expectation) triples judged by TLC',
        'bootable_observations': boot,
        'max_entries_observed': max([len(it['expect']['entries']) for it in items] or [0]),
        'entry_counts_observed': sorted(set(len(it['expect']['entries']) for it in items)),
        'refused_33rd_entry_observed': sum(1 for hh in hists for st in hh['h'] if st['why'] == 'too_many'),
        'second_names': link_coverage(hists),
        'configurations': sorted(set(c for (_, c) in tasks)),
        'judge_states': sum(s.get('generated', 0) for s in jstats),
        'exhaustive': False,
    })
    for i in (0, len(hists) // 2, len(hists) - 1):
        ctx.sample({'history': hist_brief(hists[i]), 'expected': {'boot': hists[i]['exp']['boot'],
                                                                  'entries': hists[i]['exp']['entries'][:3]}})
    ctx.assumptions += ['decoders/eltorito.py implements El Torito 1.0 and ECMA-119 directory records correctly',
                        'SHA-256 equality stands for byte equality',
                        'behaviours ending in a refusal that pycdlib raises after mutating its object are C14\'s and are not judged here',
                        'second names (hard links): one alias per file, ISO9660 (+Rock Ridge) only, always made from the original '
                        'ISO9660 name; the alias is never the path given to add_eltorito/add_hard_link, and a name is not re-added '
                        'while its record exists; removals (rm_file by either name, rm_hard_link of either name or of every name) '
                        'are all offered on aliased files']


if __name__ == '__main__':
    sys.exit(checklib.main('C11', 'model_checking', run))
