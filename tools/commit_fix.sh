#!/bin/sh
# usage: commit_fix.sh <file with commit message>
# commits the working changes of /tmp/wt-fix as one "fix:" commit ONLY if the repository's baseline
# suite still passes there, then fast-forwards /repo's main.
MSG="$1"
head -1 "$MSG" | grep -q '^fix: ' || { echo "message must start with 'fix: '"; exit 2; }
OUT=$(/verif/tools/run_baseline.sh /tmp/wt-fix); RC=$?
echo "$OUT" | tail -3
if [ $RC -ne 0 ]; then echo "BASELINE BROKEN - not committed"; exit 1; fi
git -C /tmp/wt-fix commit -q -a -F "$MSG" && git -C /repo merge -q --ff-only fixes && git -C /repo log --oneline | head -1
