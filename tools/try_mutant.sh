#!/bin/sh
# usage: try_mutant.sh <patch.diff> <base-branch-or-commit> <ID> [<ID>...]
# applies the patch in a scratch worktree (outside /repo and /verif), runs the quick checks
# against it (VERIF_REPO), prints their exit codes, removes the worktree.
PATCH="$1"; BASE="$2"; shift 2
WT=$(mktemp -d /tmp/mutrun-XXXXXX)
rmdir "$WT"
git -C /repo worktree add -q --detach "$WT" "$BASE" || exit 2
if ! git -C "$WT" apply "$PATCH"; then echo "PATCH DOES NOT APPLY"; git -C /repo worktree remove --force "$WT"; exit 2; fi
for ID in "$@"; do
  ( cd /verif && VERIF_REPO="$WT" VERIF_EVIDENCE_DIR="${MUT_EVIDENCE:-/tmp/mut-evidence}" VERIF_WORK="${MUT_EVIDENCE:-/tmp/mut-evidence}/work" timeout 1800 ./check "$ID" --tier "${TIER:-quick}" > "/tmp/mutrun-$ID.log" 2>&1; echo "check $ID exit=$? violations=$(grep -c '^VIOLATION' /tmp/mutrun-$ID.log)" )
done
git -C /repo worktree remove --force "$WT"
