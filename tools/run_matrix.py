#!/usr/bin/env python3
"""Sensitivity matrix: run the quick checks against every seeded change and record the outcome.

usage: run_matrix.py [--jobs N] [--tier quick] [<seeded id> ...]      (default: all of seeded/*)

Each change is applied in its own scratch git worktree of /repo HEAD (under /tmp, removed
afterwards); the checks run with VERIF_REPO pointing there and VERIF_EVIDENCE_DIR pointing at a
scratch directory, so neither /repo nor /verif/evidence is touched.  Results are merged into
seeded/results.json and seeded/RESULTS.md is regenerated.
"""
import json
import os
import shutil
import subprocess
import sys
import tempfile
from concurrent.futures import ThreadPoolExecutor

HERE = os.path.dirname(os.path.dirname(os.path.abspath(__file__)))
SEEDED = os.path.join(HERE, 'seeded')
# checks besides the change's own property that are worth running (they caught it at some point)
EXTRA = {'C01-m1': ['C04', 'C08'], 'C01-m2': ['C02', 'C09'], 'C02-m3': ['C09'], 'C04-m2': ['C02', 'C10'],
         'C05-m3': ['C08'], 'C07-m1': ['C14'], 'C09-m2': ['C07'], 'C09-m3': ['C13'], 'C10-m3': ['C02'],
         'C13-m3': ['C10'], 'C14-m1': ['C11'], 'C16-m3': ['C11'], 'C18-m3': ['C20'],
         'C01c-m3': ['C08'], 'C02c-m3': ['C01', 'C07', 'C09'], 'C02c-m1': ['C01', 'C08'], 'C06c-m3': ['C12'],
         'C10c-m3': ['C11'], 'C17c-m3': ['C10'], 'C09-m2': ['C07', 'C01'], 'C14c-m2': ['C11'], 'C18c-m3': ['C20'],
         'C02d-m1': ['C07', 'C10'], 'C02d-m2': ['C07', 'C11'], 'C07d-m1': ['C02', 'C11'], 'C07d-m2': ['C11'],
         'C11d-m1': ['C02', 'C16'], 'C10d-m1': ['C05'], 'C10d-m2': ['C17'], 'C05d-m1': ['C10'], 'C05d-m2': ['C12'],
         'C14d-m1': ['C11'], 'C14d-m2': ['C13'], 'C18d-m2': ['C20'], 'C04d-m1': ['C02', 'C11'], 'C04d-m2': ['C07', 'C11'],
         'C01d-m2': ['C11', 'C10'], 'C13d-m2': ['C10'],
         'C20c-m3': ['C18'], 'C05c-m3': ['C19'], 'C07c-m3': ['C02'], 'C05c-m1': ['C11'], 'C14c-m1': ['C08'], 'C05c-m2': ['C10'], 'C07c-m2': ['C11'], 'C11c-m3': ['C07']}


def head():
    return subprocess.check_output(['git', '-C', '/repo', 'rev-parse', '--short', 'HEAD']).decode().strip()


def run_one(mid, tier):
    d = os.path.join(SEEDED, mid)
    pid = json.load(open(os.path.join(d, 'meta.json')))['breaks_property']
    checks = [pid] + EXTRA.get(mid, [])
    wt = tempfile.mkdtemp(prefix='mutrun-')
    os.rmdir(wt)
    ev = tempfile.mkdtemp(prefix='mutev-')
    res = {}
    try:
        subprocess.check_call(['git', '-C', '/repo', 'worktree', 'add', '-q', '--detach', wt, 'HEAD'])
        if subprocess.call(['git', '-C', wt, 'apply', os.path.join(d, 'patch.diff')]) != 0:
            return mid, {'apply': 'failed'}
        for c in checks:
            env = dict(os.environ, VERIF_REPO=wt, VERIF_EVIDENCE_DIR=ev, VERIF_WORK=os.path.join(ev, 'work'))
            try:
                p = subprocess.run([os.path.join(HERE, 'check'), c, '--tier', tier], cwd=HERE, env=env,
                                   stdout=subprocess.PIPE, stderr=subprocess.STDOUT, timeout=3600, check=False)
                out = p.stdout.decode('utf-8', 'replace')
                res[c] = {'exit': p.returncode, 'violations': out.count('\nVIOLATION') + out.startswith('VIOLATION'),
                          'tier': tier}
            except subprocess.TimeoutExpired:
                res[c] = {'exit': 'timeout', 'violations': 0, 'tier': tier}
            print('%s %s exit=%s violations=%s' % (mid, c, res[c]['exit'], res[c]['violations']), flush=True)
    finally:
        subprocess.call(['git', '-C', '/repo', 'worktree', 'remove', '--force', wt])
        shutil.rmtree(ev, ignore_errors=True)
    return mid, res


def write_md(results):
    out = ['# Seeded changes: which check catches which', '',
           'Each change was produced by a fresh sub-agent that saw only the property text and a scratch worktree',
           'of /repo, confirmed with `tools/confirm_mutant.sh` (its demonstration passes on HEAD and fails with the',
           'patch; all 1393 tests of BASELINE.json still pass with the patch) and run with `tools/run_matrix.py`',
           'against the quick tier of its own property\'s check and of the other checks listed (scratch worktree of',
           '/repo HEAD + patch, scratch evidence directory, removed afterwards).  exit 1 = VIOLATION reported.',
           'A change that no longer applies to HEAD was overtaken by a later `fix:` commit at the same place.', '',
           '| change | breaks | needs (short) | quick checks: exit (violations) | caught by |', '|---|---|---|---|---|']
    for mid in sorted(results):
        d = os.path.join(SEEDED, mid)
        needs = ''
        if os.path.exists(os.path.join(d, 'notes.md')):
            needs = ' '.join(open(os.path.join(d, 'notes.md')).read().split())[:170].replace('|', '/')
        r = results[mid]['checks']
        if 'apply' in r:
            out.append('| %s | %s | %s | patch no longer applies (%s) | - |' % (mid, mid[:3], needs, results[mid]['head']))
            continue
        cells = ', '.join('%s: %s (%s)' % (c, v['exit'], v['violations']) for c, v in sorted(r.items()))
        caught = sorted(c for c, v in r.items() if v['exit'] == 1)
        note = results[mid].get('note', '')
        out.append('| %s | %s | %s | %s | %s%s |' % (mid, mid[:3], needs, cells, ', '.join(caught) if caught else '**none**',
                                                   ('; ' + note) if note else ''))
    own = [m for m in results if 'apply' not in results[m]['checks']]
    n_any = sum(1 for m in own if any(v['exit'] == 1 for v in results[m]['checks'].values()))
    n_own = sum(1 for m in own if results[m]['checks'].get(m[:3], {}).get('exit') == 1)
    out += ['', '%d changes apply to HEAD; %d are reported by some check, %d by the check of the property they were '
            'written against.' % (len(own), n_any, n_own)]
    with open(os.path.join(SEEDED, 'RESULTS.md'), 'w') as f:
        f.write('\n'.join(out) + '\n')


def main():
    args = sys.argv[1:]
    jobs = 2
    tier = 'quick'
    while args and args[0].startswith('--'):
        if args[0] == '--jobs':
            jobs = int(args[1])
        elif args[0] == '--tier':
            tier = args[1]
        args = args[2:]
    ids = args or sorted(m for m in os.listdir(SEEDED) if os.path.isdir(os.path.join(SEEDED, m)))
    path = os.path.join(SEEDED, 'results.json')
    results = json.load(open(path)) if os.path.exists(path) else {}
    h = head()
    with ThreadPoolExecutor(jobs) as ex:
        for mid, res in ex.map(lambda m: run_one(m, tier), ids):
            note = results.get(mid, {}).get('note', '')
            results[mid] = {'head': h, 'checks': res}
            if note:
                results[mid]['note'] = note
            with open(path, 'w') as f:
                json.dump(results, f, indent=1, sort_keys=True)
    write_md(results)


if __name__ == '__main__':
    main()
