#!/bin/sh
# usage: seed_sweep.sh <seed> [<ID>...]   -- all quick checks with another seed, against /repo,
# with scratch evidence/cache directories (the committed evidence is not touched).
# A check that prints VIOLATION here on the unchanged tree is a false alarm or a genuine defect:
# either way it has to be looked at before that seed is used by somebody else.
SEED="$1"; shift
IDS="${*:-C01 C02 C03 C04 C05 C06 C07 C08 C09 C10 C11 C12 C13 C14 C15 C16 C17 C18 C19 C20}"
EV=$(mktemp -d /tmp/sweep-XXXXXX)
cd /verif
for ID in $IDS; do
  VERIF_EVIDENCE_DIR="$EV" VERIF_WORK="$EV/work" VERIF_SEED="$SEED" VERIF_TIER=quick ./check "$ID" --tier quick --seed "$SEED" > "$EV/$ID.log" 2>&1
  RC=$?
  echo "seed=$SEED $ID exit=$RC violations=$(grep -c '^VIOLATION' "$EV/$ID.log") known=$(grep -c '^KNOWN-FINDING' "$EV/$ID.log")"
  if [ $RC -ne 0 ]; then mkdir -p /tmp/sweep-fail; cp "$EV/$ID.log" "/tmp/sweep-fail/seed$SEED-$ID.log"; cp -r "$EV/replays/$ID" "/tmp/sweep-fail/seed$SEED-$ID-replays" 2>/dev/null; fi
done
rm -rf "$EV"
