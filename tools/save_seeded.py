#!/usr/bin/env python3
"""Copy confirmed sub-agent changes into /verif/seeded/<id>/ with a meta.json.
usage: save_seeded.py <confirm log> [<confirm log> ...]   (lines of tools/confirm_mutant.sh)"""
import json, os, re, shutil, sys
HERE = os.path.dirname(os.path.dirname(os.path.abspath(__file__)))
props = {}
for line in open(os.path.join(HERE, 'properties.jsonl')):
    line = line.strip()
    if line:
        p = json.loads(line)
        props[p['id']] = p
for log in sys.argv[1:]:
    for line in open(log):
        m = re.match(r'(/tmp/mut[34]?-(C\d\d)(\w?)/out/(m\d)) (demo_clean_exit=0 demo_mutant_exit=1 baseline stable_pass: (\d+), passed now: \6, missing: 0)', line.strip())
        if not m:
            print('SKIP (not confirmed):', line.strip())
            continue
        src, pid, wave, mn, result = m.group(1), m.group(2), m.group(3), m.group(4), m.group(5)
        if src.startswith('/tmp/mut3-'):
            wave = 'c'
        if src.startswith('/tmp/mut4-'):
            wave = 'd'
        sid = '%s%s-%s' % (pid, wave, mn)
        dst = os.path.join(HERE, 'seeded', sid)
        os.makedirs(dst, exist_ok=True)
        for f in ('patch.diff', 'demo.py', 'notes.md'):
            if os.path.exists(os.path.join(src, f)):
                shutil.copy(os.path.join(src, f), os.path.join(dst, f))
        notes = open(os.path.join(dst, 'notes.md')).read() if os.path.exists(os.path.join(dst, 'notes.md')) else ''
        meta = {
            'id': sid, 'breaks_property': pid,
            'property_title': props[pid].get('title', ''),
            'origin': 'fresh sub-agent that saw only the property text and a scratch worktree of /repo (at the fixes branch), nothing from /verif',
            'needs_to_manifest': notes[:1200],
            'confirmed': {'command': 'tools/confirm_mutant.sh ' + src, 'result': result,
                          'meaning': 'demo.py exits 0 on /repo HEAD and 1 with patch.diff applied; all 1393 tests of BASELINE.json stable_pass still pass with the patch'},
            'checked_with': 'tools/try_mutant.sh <patch> HEAD <ID...>  (scratch worktree outside /repo and /verif, removed afterwards); see seeded/RESULTS.md',
        }
        json.dump(meta, open(os.path.join(dst, 'meta.json'), 'w'), indent=1)
        print('saved', sid)
