#!/bin/sh
# usage: confirm_mutant.sh <dir with patch.diff and demo.py> -> prints one summary line
# confirms: patch applies to /repo HEAD; demo passes without and fails with the patch; baseline suite unchanged
D="$1"
WT=$(mktemp -d /tmp/mutconf-XXXXXX); rmdir "$WT"
git -C /repo worktree add -q --detach "$WT" HEAD || { echo "$D worktree-failed"; exit 2; }
PYTHONPATH="$WT" /venv/bin/python "$D/demo.py" >/dev/null 2>&1; CLEAN=$?
if ! git -C "$WT" apply "$D/patch.diff" 2>/dev/null; then echo "$D APPLY-FAILED"; git -C /repo worktree remove --force "$WT"; exit 1; fi
PYTHONPATH="$WT" /venv/bin/python "$D/demo.py" >/dev/null 2>&1; MUT=$?
BASE=$(/verif/tools/run_baseline.sh "$WT" 2>&1 | head -1)
git -C /repo worktree remove --force "$WT"
echo "$D demo_clean_exit=$CLEAN demo_mutant_exit=$MUT $BASE"
