#!/bin/sh
# usage: run_baseline.sh <repo dir>   -- runs the repository suite (guard off) and compares with BASELINE.json
D="${1:-/repo}"
OUT=$(mktemp /tmp/baseline-XXXXXX.xml)
cd "$D" && env -u CLALANCETTE_PYCDLIB_VERIF /venv/bin/python -m pytest -q -p no:cacheprovider --timeout=900 --continue-on-collection-errors --junitxml="$OUT" >/dev/null 2>&1
/venv/bin/python - "$OUT" <<'PY'
import sys, json, xml.etree.ElementTree as ET
base=json.load(open('/root/.vp/BASELINE.json'))
want=set(base['stable_pass'])
root=ET.parse(sys.argv[1]).getroot()
passed=set()
for tc in root.iter('testcase'):
    ok=not any(ch.tag in('failure','error','skipped') for ch in tc)
    if ok: passed.add(tc.get('classname')+'::'+tc.get('name'))
missing=sorted(want-passed)
print('baseline stable_pass: %d, passed now: %d, missing: %d' % (len(want), len(passed&want), len(missing)))
for m in missing[:40]: print('  MISSING', m)
sys.exit(1 if missing else 0)
PY
rc=$?
rm -f "$OUT"
exit $rc
