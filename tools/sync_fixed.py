#!/usr/bin/env python3
"""adds fix: commits of /repo that are not yet in known_findings.json 'fixed' (property given per commit on argv: sha=Cxx)"""
import json, subprocess, sys
d=json.load(open('/verif/known_findings.json'))
have={f['commit'] for f in d['fixed']}
want=dict(a.split('=') for a in sys.argv[1:])
# drop entries whose commit no longer exists
log=subprocess.check_output(['git','-C','/repo','log','--reverse','--format=%h\t%s','1c3f835..HEAD']).decode().strip().split('\n')
shas={l.split('\t')[0] for l in log}
d['fixed']=[f for f in d['fixed'] if f['commit'] in shas]
for line in log:
    sha,subj=line.split('\t',1)
    if sha in have: continue
    if sha not in want:
        print('need property for', sha, subj); continue
    p=want[sha]
    d['fixed'].append({'property':p,'commit':sha,'what':subj[5:],'line':'fixed: property=%s %s %s'%(p,sha,subj[5:])})
json.dump(d,open('/verif/known_findings.json','w'),indent=1)
print(len(d['fixed']),'fixed entries')
