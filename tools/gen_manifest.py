#!/usr/bin/env python3
"""Writes /verif/MANIFEST.json from the table below (run after adding/removing a check)."""
import json, os
HERE = os.path.dirname(os.path.dirname(os.path.abspath(__file__)))
ids = [json.loads(l)['id'] for l in open(os.path.join(HERE, 'properties.jsonl'))]

CORE_NOTE = ('Trusted: TLC/SANY, PyCdlibModel.tla + NameRules.tla + Trace_Model.tla, the Python driver/projection '
             '(harness/driver.py, project.py), CPython hashlib/struct. Bounded: realisation tables of 2-17 names (core, tiny, '
             'unicode, bigdir, longrr, huge, pack witnesses), depth <= 2, <= 3-4 entries per namespace in the tours, blobs of '
             '0/1/2/2048/2049/4096 bytes and one virtual content of 4 GiB + 6 KiB, 12 configurations (pairwise cover), '
             'behaviours <= 4-6 calls (tours, focused alphabets), 8-14 (simulation), lifecycle compositions A;close;B. '
             'The corpus also holds the traces recorded from the repository\'s own integration tests (harness/pytest_record.py, '
             'lazy and always-consistent pass). The binding self-test (harness/selftest_core.py: 51 corrupted traces must be '
             'rejected) runs with C01. After a step matching a listed known finding the rest of that behaviour is not judged.')
IMG_NOTE = CORE_NOTE + ' Plus the independent decoders under harness/decoders (written from the standards, no pycdlib import) and ImageChecks.tla/Volume.tla.'

CHECKS = {
 'C01': ('model_checking', 'explicit TLA+ model (PyCdlibModel) + TLC-generated behaviours replayed on pycdlib + TLC trace validation',
         'TLC enumerates behaviours of the abstract API model (transition tour per configuration, random deep behaviours); each is replayed on the real PyCdlib, the image is written, reopened in a fresh object and projected; TLC (Trace_Model) judges every step and the final view against the model state in every namespace (paths, kinds, hidden flags, symlink targets, content ids; what walk() lists and what full_path_from_dirrecord(get_record(p)) answers against WalkOf/SameObject of the model), and that write/open succeed. Exhaustive over the bounded transition graph, sampled beyond.', '4 C01', CORE_NOTE),
 'C02': ('model_checking', 'same model with Reopen (write/close/open_fp) generations; TLC trace validation',
         'Same corpus restricted to behaviours with one or more Reopen steps (up to 2-3 generations): edits act on parsed state; TLC judges every later step and the final image against the model, including the frame (nothing but the addressed entry changes) because the whole projected state is compared after each call.', '4 C02', CORE_NOTE),
 'C03': ('model_checking', 'independent ECMA-119 decoder + Volume.tla clauses evaluated by TLC on images of model behaviours',
         'Images written at the end of TLC-generated behaviours are decoded by a decoder that shares no code with pycdlib; TLC evaluates the ECMA-119 well-formedness clauses (Volume.tla), agreement with what the library API reports (ApiMatches) and agreement of the decoded tree with the model state (Dec_Tree/Dec_Content in Trace_Model).', '4 C03', IMG_NOTE),
 'C04': ('model_checking', 'region list from independent decoders + write log, layout clauses in TLA+ (ImageChecks) judged by TLC; SharedIffLinked against the model',
         'For the same images TLC evaluates NoOverlap/InBounds/ExactLength over the regions found by all independent decoders, WriteOnce/NoWritePastEnd over the logged writes of write_fp, and SharedIffLinked (same data sectors iff same link class of the model).', '4 C04', IMG_NOTE),
 'C05': ('model_checking', 'differential re-mastering of images of model behaviours; region-classified diffs judged by TLC',
         'Each sampled image is opened and written again twice (fixed clock) and once with the clock advanced; differing bytes are classified by region kind using the independent decoder; TLC evaluates RemasterIdentical, RemasterIdempotent, RemasterOnlyModDate.', '4 C05', IMG_NOTE),
 'C06': ('model_checking', 'TLC enumerates schedules (placements of force_consistency/query/walk/write, both modes); differential replay judged by TLC',
         'The model declares schedule steps stuttering (checked by TLC on the model); TLC enumerates every history of the bounded model with up to 2 schedule steps in lazy and always-consistent mode; each is replayed next to its stripped lazy baseline and TLC judges ScheduleDiff (bytes differ) and per-step projections.', '4 C06', CORE_NOTE),
 'C07': ('model_checking', 'link classes as derived state of the TLA+ model; action properties checked by TLC; trace validation of link/unlink steps',
         'TLC checks on the model NoOrphanInode, ContentLivesUntilLastName, RmHardLinkRemovesOneName, RmFileRemovesExactlyTheLinkClass; on the implementation every AddHardLink/RmHardLink/RmFile step of the corpus is judged against the model in all namespaces, link classes are compared as partitions, and data extents in the written image must be shared iff linked.', '4 C07', CORE_NOTE),
 'C09': ('model_checking', 'independent Joliet decoder + Volume.tla jol: clauses + model comparison by TLC',
         'For Joliet configurations of the corpus TLC evaluates the jol: clauses of Volume.tla (sorting, path tables, sizes, escape sequence = level), ApiMatches for the Joliet tree and Dec_Tree_jol/Dec_Content_jol (decoded Joliet tree and contents equal the model jol tree; shared extents with ISO9660 links).', '4 C09', IMG_NOTE),
 'C13': ('model_checking', 'NameRules.tla legality + duplicate/illegal/too-deep refusals of the model, trace validation; name probes judged by TLC',
         'The model refuses duplicate, illegal and too deep names in every namespace; for every such refusal the real call must raise PyCdlibInvalidInput at the edit and change nothing; every projection must have unique names; accepted histories must master. Character-class name probes (Mangle.tla / C18 machinery) add the input-space side.', '4 C13', CORE_NOTE),
 'C14': ('model_checking', 'TLC enumerates one refused call per (action, reason) at every state of the bounded graph; differential replay judged by TLC',
         'Every refusal reason of every mutator of the model (bad/duplicate name in first, second or third namespace, missing parent, wrong kind, not empty, the root of a namespace, no such namespace, wrong state, a configuration new() does not know - also after close() and before the real new()) is placed at every state of the tour and in random behaviours; TLC judges that the projection is unchanged, that later steps conform, that write succeeds and that the bytes equal the run without the refused call.', '4 C14', CORE_NOTE),
 'C17': ('model_checking', 'ModifyInPlace action of the TLA+ model; TLC-generated behaviours (reopen, modify, repeat; DirPack boundary directories); byte classification of the backing file and backing-file view judged by TLC',
         'The model accepts modify_file_in_place iff the target is a file with data (an El Torito boot file included) whose sector count does not change (and nothing is pending; sizes 0, 1, 2, 2048, 2049, 4096 so that a replacement can end exactly one sector short); TLC-generated behaviours are replayed; the bytes of the backing file before/after are classified by the independent decoders (data of the target, directory records pointing at it, its UDF file entries, VD size fields, other) and TLC judges InPlaceTouchesOnly / RefusedInPlaceChangedFile; the backing file itself is opened in a fresh object, decoded independently and judged against the model state and the Volume/Layout clauses.', '4 C17', IMG_NOTE),
}
AGENT = {
 'C08': ('model_checking', 'SuspPlacement.tla case-space enumeration by TLC -> witnesses and add/remove/reopen histories replayed on pycdlib -> independent SUSP/RRIP decoder -> Susp.tla clauses judged by TLC', '4 C08'),
 'C10': ('model_checking', 'MC_udf.tla behaviours replayed on pycdlib -> independent ECMA-167 decoder -> UdfVolume.tla clauses judged by TLC', '4 C10'),
 'C11': ('model_checking', 'MC_boot.tla behaviours replayed on pycdlib -> independent El Torito decoder -> Boot.tla clauses judged by TLC', '4 C11'),
 'C12': ('model_checking', 'MC_boot.tla behaviours + geometry grid -> independent MBR/GPT/APM decoder -> Boot.tla clauses judged by TLC', '4 C12'),
 'C15': ('fault_enumeration', 'Hostile.tla fault model over an independent structure inventory; TLC enumerates faults; outcomes judged by TLC', '4 C15'),
 'C16': ('model_checking', 'Stream.tla reference stream semantics; TLC behaviours replayed on PyCdlibIO; Trace_Stream.tla validation', '4 C16'),
 'C18': ('model_checking', 'Mangle.tla transcription checked by TLC; every case run through the real helpers, acceptance predicate and facades; judged by TLC', '4 C18'),
 'C19': ('model_checking', 'Dates.tla civil-time arithmetic and denotations checked by TLC; every case run on the real date classes under real TZ settings; judged by TLC', '4 C19'),
 'C20': ('model_checking', 'Tools.tla source trees x options enumerated by TLC; genisoimage + extract-files run on each; round-trip clauses judged by TLC', '4 C20'),
}

def have(pid):
    return os.path.exists(os.path.join(HERE, 'harness', 'check_%s.py' % pid))

checks = []
na = []
for pid in ids:
    if pid in CHECKS and have(pid):
        lvl, tech, text, ref, note = CHECKS[pid]
    elif pid in AGENT and have(pid) and os.path.exists(os.path.join(HERE, 'evidence', pid + '.json')):
        lvl, tech, ref = AGENT[pid]
        text = json.load(open(os.path.join(HERE, 'evidence', pid + '.json')))['coverage'].get('rule', tech)[:900]
        note = 'Trusted: TLC/SANY, the TLA+ modules named in technique, the independent decoders/harness for this property, CPython stdlib. Bounds are restated with measured counts in the evidence file.'
    else:
        na.append({'property_id': pid, 'reason': 'check not built yet (work in progress; the design covers it, see DESIGN.md section 4)'})
        continue
    checks.append({'property_id': pid, 'quick_cmd': './check %s --tier quick' % pid,
                   'thorough_cmd': './check %s --tier thorough' % pid,
                   'evidence_file': 'evidence/%s.json' % pid,
                   'replay_cmd_template': 'cat {path}',
                   'engine': 'tlc',
                   'level_claimed': {'category': lvl, 'text': text, 'design_ref': 'DESIGN.md section ' + ref},
                   'level_note': note, 'technique': tech})
m = {'version': 1, 'setup_cmd': './setup.sh',
     'hooks': {'guard': 'CLALANCETTE_PYCDLIB_VERIF', 'enable': 'no source hooks: checks wrap the public API from outside (PYTHONPATH=/repo); ./check exports the guard for completeness',
               'baseline_off_cmd': 'cd /repo && /venv/bin/python -m pytest -ra -q -p no:cacheprovider --timeout=900 --continue-on-collection-errors',
               'source_commits': [], 'add_only': True},
     'engines': [{'name': 'tlc', 'path': 'harness/tlc.py', 'serves_properties': [c['property_id'] for c in checks],
                  'kind_free_text': 'TLC 1.8 model checker: bounded model checking of the TLA+ specifications under spec/, generation of behaviours, and judging of traces/observations recorded from the real code'}],
     'checks': checks,
     'notes': 'Model-based verification with explicit TLA+ specifications (see DESIGN.md). Known, unrepaired defects are listed in known_findings.json / known_findings.d/*.json.',
     'not_applicable': na}
json.dump(m, open(os.path.join(HERE, 'MANIFEST.json'), 'w'), indent=1)
print('checks:', [c['property_id'] for c in checks]); print('not claimed:', [x['property_id'] for x in na])
