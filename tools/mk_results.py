#!/usr/bin/env python3
"""seeded/RESULTS.md from the logs of tools/try_mutant.sh runs (matrix logs given on argv)"""
import json, os, re, sys
rows = {}
for path in sys.argv[1:]:
    cur = None
    for line in open(path):
        m = re.match(r'## (C\d+b?)/out/(m\d)', line)
        if m:
            cur = '%s-%s' % (m.group(1).rstrip('b') if not m.group(1).endswith('b') else m.group(1), m.group(2))
            rows.setdefault(cur, {})
            continue
        m = re.match(r'check (C\d+) exit=(\d+) violations=(\d+)', line)
        if m and cur:
            rows[cur][m.group(1)] = (int(m.group(2)), int(m.group(3)))
        if 'APPLY' in line and cur:
            rows[cur]['apply'] = 'failed'
out = ['# Seeded changes: which check catches which', '',
       'Each change was produced by a fresh sub-agent that saw only the property text and a scratch worktree,',
       'confirmed with `tools/confirm_mutant.sh` (demo passes on HEAD / fails with the patch; 1393/1393 baseline',
       'tests still pass) and run against the quick tier of the listed checks with `tools/try_mutant.sh`',
       '(scratch worktree of /repo HEAD + patch, removed afterwards).  exit 1 = VIOLATION reported.', '',
       '| change | breaks | needs (short) | checks run: exit (violations) | caught |', '|---|---|---|---|---|']
for mid in sorted(rows):
    d = os.path.join('/verif/seeded', mid)
    needs = ''
    if os.path.exists(os.path.join(d, 'notes.md')):
        txt = open(os.path.join(d, 'notes.md')).read()
        needs = ' '.join(txt.split())[:160].replace('|', '/')
    res = rows[mid]
    cells = ', '.join('%s: %d (%d)' % (c, v[0], v[1]) for c, v in sorted(res.items()) if c != 'apply')
    caught = [c for c, v in res.items() if c != 'apply' and v[0] == 1]
    out.append('| %s | %s | %s | %s | %s |' % (mid, mid.split('-')[0], needs, cells or res.get('apply', ''),
                                           ('yes: ' + ', '.join(sorted(caught))) if caught else 'NO'))
open('/verif/seeded/RESULTS.md', 'w').write('\n'.join(out) + '\n')
print('\n'.join(out[-len(rows):]))
